//! `std::thread` subset used by Humphrey, under the simulator when one is active.

use crate::sim;

use std::any::Any;
use std::sync::{Arc, Mutex};
use std::time::Duration;

pub use std::thread::{current, panicking, Result};

type Slot<T> = Arc<Mutex<Option<std::thread::Result<T>>>>;

pub struct JoinHandle<T>(Inner<T>);

enum Inner<T> {
    Real(std::thread::JoinHandle<T>),
    Sim { tid: usize, slot: Slot<T> },
}

impl<T> JoinHandle<T> {
    pub fn join(self) -> std::thread::Result<T> {
        match self.0 {
            Inner::Real(h) => h.join(),
            Inner::Sim { tid, slot } => {
                loop {
                    sim::yield_now("thread.join");
                    if sim::thread_finished(tid) {
                        break;
                    }
                    sim::block_on(sim::thread_res(tid), None, "thread.join");
                }
                let r = slot.lock().unwrap_or_else(|e| e.into_inner()).take();
                match r {
                    Some(r) => r,
                    None => Err(Box::new("thread result missing") as Box<dyn Any + Send>),
                }
            }
        }
    }

    pub fn is_finished(&self) -> bool {
        match &self.0 {
            Inner::Real(h) => h.is_finished(),
            Inner::Sim { tid, .. } => sim::thread_finished(*tid),
        }
    }
}

#[derive(Default)]
pub struct Builder {
    name: Option<String>,
    stack_size: Option<usize>,
}

impl Builder {
    pub fn new() -> Self {
        Builder { name: None, stack_size: None }
    }
    pub fn name(mut self, name: String) -> Self {
        self.name = Some(name);
        self
    }
    pub fn stack_size(mut self, size: usize) -> Self {
        self.stack_size = Some(size);
        self
    }
    pub fn spawn<F, T>(self, f: F) -> std::io::Result<JoinHandle<T>>
    where
        F: FnOnce() -> T + Send + 'static,
        T: Send + 'static,
    {
        if !sim::in_sim() {
            let mut b = std::thread::Builder::new();
            if let Some(n) = self.name {
                b = b.name(n);
            }
            if let Some(s) = self.stack_size {
                b = b.stack_size(s);
            }
            return b.spawn(f).map(|h| JoinHandle(Inner::Real(h)));
        }
        let slot: Slot<T> = Arc::new(Mutex::new(None));
        let slot2 = slot.clone();
        let body = Box::new(move || {
            let r = std::panic::catch_unwind(std::panic::AssertUnwindSafe(f));
            *slot2.lock().unwrap_or_else(|e| e.into_inner()) = Some(r);
        });
        let tid = sim::spawn_thread(self.name, self.stack_size, body)?;
        sim::yield_now("thread.spawn");
        Ok(JoinHandle(Inner::Sim { tid, slot }))
    }
}

pub fn spawn<F, T>(f: F) -> JoinHandle<T>
where
    F: FnOnce() -> T + Send + 'static,
    T: Send + 'static,
{
    Builder::new().spawn(f).expect("failed to spawn thread")
}

pub fn sleep(d: Duration) {
    if sim::in_sim() {
        sim::sleep_ns(d.as_nanos().min(u64::MAX as u128 / 4) as u64);
    } else {
        std::thread::sleep(d)
    }
}

pub fn park_timeout(d: Duration) {
    if sim::in_sim() {
        sim::sleep_ns(d.as_nanos().min(u64::MAX as u128 / 4) as u64);
    } else {
        std::thread::park_timeout(d)
    }
}

pub fn yield_now() {
    if sim::in_sim() {
        sim::yield_now("thread.yield");
    } else {
        std::thread::yield_now()
    }
}
