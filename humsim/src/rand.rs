//! The randomness seam: a drop-in for `rand_core::OsRng`.
//!
//! Inside a simulation every byte comes from the run's own entropy stream (seeded from the run
//! seed), so tokens, salts and uids are a function of the seed and a failure that depends on
//! them replays exactly.  Outside a simulation it is the real `OsRng`.

use rand_core::{CryptoRng, Error, RngCore};

#[derive(Clone, Copy, Debug, Default)]
pub struct OsRng;

impl RngCore for OsRng {
    fn next_u32(&mut self) -> u32 {
        self.next_u64() as u32
    }
    fn next_u64(&mut self) -> u64 {
        match crate::sim::entropy_u64() {
            Some(x) => x,
            None => rand_core::OsRng.next_u64(),
        }
    }
    fn fill_bytes(&mut self, dest: &mut [u8]) {
        if crate::sim::in_sim() {
            for chunk in dest.chunks_mut(8) {
                let x = self.next_u64().to_le_bytes();
                chunk.copy_from_slice(&x[..chunk.len()]);
            }
        } else {
            rand_core::OsRng.fill_bytes(dest)
        }
    }
    fn try_fill_bytes(&mut self, dest: &mut [u8]) -> Result<(), Error> {
        self.fill_bytes(dest);
        Ok(())
    }
}

impl CryptoRng for OsRng {}
