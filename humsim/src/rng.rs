//! Small deterministic PRNG (SplitMix64 seeding + xoshiro256**).  No global state.

#[derive(Clone, Debug)]
pub struct Rng {
    s: [u64; 4],
}

pub fn splitmix(x: &mut u64) -> u64 {
    *x = x.wrapping_add(0x9E37_79B9_7F4A_7C15);
    let mut z = *x;
    z = (z ^ (z >> 30)).wrapping_mul(0xBF58_476D_1CE4_E5B9);
    z = (z ^ (z >> 27)).wrapping_mul(0x94D0_49BB_1331_11EB);
    z ^ (z >> 31)
}

/// Mix several integers into one seed (order-sensitive).
pub fn mix(parts: &[u64]) -> u64 {
    let mut h = 0x243F_6A88_85A3_08D3u64;
    for p in parts {
        h ^= *p;
        h = splitmix(&mut h);
    }
    h
}

pub fn hash_str(s: &str) -> u64 {
    let mut h = 0xcbf2_9ce4_8422_2325u64;
    for b in s.bytes() {
        h ^= b as u64;
        h = h.wrapping_mul(0x1000_0000_01b3);
    }
    h
}

impl Rng {
    pub fn new(seed: u64) -> Self {
        let mut x = seed;
        let s = [splitmix(&mut x), splitmix(&mut x), splitmix(&mut x), splitmix(&mut x)];
        Rng { s }
    }
    pub fn next_u64(&mut self) -> u64 {
        let r = self.s[1].wrapping_mul(5).rotate_left(7).wrapping_mul(9);
        let t = self.s[1] << 17;
        self.s[2] ^= self.s[0];
        self.s[3] ^= self.s[1];
        self.s[1] ^= self.s[2];
        self.s[0] ^= self.s[3];
        self.s[2] ^= t;
        self.s[3] = self.s[3].rotate_left(45);
        r
    }
    /// Uniform in [0, n); n == 0 returns 0.
    pub fn below(&mut self, n: u64) -> u64 {
        if n == 0 {
            return 0;
        }
        // multiply-shift; bias is irrelevant here
        ((self.next_u64() as u128 * n as u128) >> 64) as u64
    }
    pub fn range(&mut self, lo: u64, hi_incl: u64) -> u64 {
        lo + self.below(hi_incl - lo + 1)
    }
    pub fn usize_below(&mut self, n: usize) -> usize {
        self.below(n as u64) as usize
    }
    pub fn chance(&mut self, num: u64, den: u64) -> bool {
        self.below(den) < num
    }
    pub fn pick<'a, T>(&mut self, xs: &'a [T]) -> &'a T {
        &xs[self.usize_below(xs.len())]
    }
    pub fn bytes(&mut self, n: usize) -> Vec<u8> {
        let mut v = Vec::with_capacity(n);
        while v.len() < n {
            let x = self.next_u64().to_le_bytes();
            let k = (n - v.len()).min(8);
            v.extend_from_slice(&x[..k]);
        }
        v
    }
    pub fn fork(&mut self) -> Rng {
        Rng::new(self.next_u64())
    }
}
