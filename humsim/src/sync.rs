//! `std::sync` subset used by Humphrey.  Each primitive wraps the std one (so data
//! protection and poisoning are the real ones) and, inside a simulation, makes every
//! acquire / send / receive a decision point and every wait a scheduler-visible block.
//! Outside a simulation they behave like std's.

use crate::sim;

use std::fmt;
use std::ops::{Deref, DerefMut};
use std::sync::atomic::{AtomicBool as StdAtomicBool, AtomicU64, AtomicUsize, Ordering};
pub use std::sync::{Arc, LockResult, PoisonError, TryLockError, Weak};

fn lazy_res(id: &AtomicU64) -> sim::Res {
    let v = id.load(Ordering::Relaxed);
    if v != 0 {
        return v;
    }
    let n = sim::alloc_res();
    id.store(n, Ordering::Relaxed);
    n
}

// ---------------------------------------------------------------- Mutex

pub struct Mutex<T: ?Sized> {
    held: StdAtomicBool,
    id: AtomicU64,
    inner: std::sync::Mutex<T>,
}

pub struct MutexGuard<'a, T: ?Sized + 'a> {
    guard: Option<std::sync::MutexGuard<'a, T>>,
    m: &'a Mutex<T>,
    sim: bool,
}

impl<T> Mutex<T> {
    pub const fn new(t: T) -> Self {
        Mutex { held: StdAtomicBool::new(false), id: AtomicU64::new(0), inner: std::sync::Mutex::new(t) }
    }
    pub fn into_inner(self) -> LockResult<T> {
        self.inner.into_inner()
    }
}

impl<T: ?Sized> Mutex<T> {
    pub fn lock(&self) -> LockResult<MutexGuard<'_, T>> {
        let in_sim = sim::in_sim();
        if in_sim {
            loop {
                sim::yield_now("mutex.lock");
                if !self.held.swap(true, Ordering::SeqCst) {
                    break;
                }
                sim::block_on(lazy_res(&self.id), None, "mutex.lock(wait)");
            }
        }
        match self.inner.lock() {
            Ok(g) => Ok(MutexGuard { guard: Some(g), m: self, sim: in_sim }),
            Err(e) => {
                Err(PoisonError::new(MutexGuard { guard: Some(e.into_inner()), m: self, sim: in_sim }))
            }
        }
    }

    pub fn is_poisoned(&self) -> bool {
        self.inner.is_poisoned()
    }
}

impl<T: ?Sized> Drop for MutexGuard<'_, T> {
    fn drop(&mut self) {
        // drop the std guard first: poisons the mutex if we are unwinding, as std does
        self.guard.take();
        if self.sim {
            self.m.held.store(false, Ordering::SeqCst);
            let id = self.m.id.load(Ordering::Relaxed);
            if id != 0 {
                sim::wake(id);
            }
        }
    }
}

impl<T: ?Sized> Deref for MutexGuard<'_, T> {
    type Target = T;
    fn deref(&self) -> &T {
        self.guard.as_ref().unwrap()
    }
}

impl<T: ?Sized> DerefMut for MutexGuard<'_, T> {
    fn deref_mut(&mut self) -> &mut T {
        self.guard.as_mut().unwrap()
    }
}

impl<T: ?Sized + fmt::Debug> fmt::Debug for Mutex<T> {
    fn fmt(&self, f: &mut fmt::Formatter<'_>) -> fmt::Result {
        self.inner.fmt(f)
    }
}

impl<T: ?Sized + fmt::Debug> fmt::Debug for MutexGuard<'_, T> {
    fn fmt(&self, f: &mut fmt::Formatter<'_>) -> fmt::Result {
        (**self).fmt(f)
    }
}

impl<T: Default> Default for Mutex<T> {
    fn default() -> Self {
        Mutex::new(T::default())
    }
}

// ---------------------------------------------------------------- RwLock

pub struct RwLock<T: ?Sized> {
    readers: AtomicUsize,
    writer: StdAtomicBool,
    id: AtomicU64,
    inner: std::sync::RwLock<T>,
}

pub struct RwLockReadGuard<'a, T: ?Sized + 'a> {
    guard: Option<std::sync::RwLockReadGuard<'a, T>>,
    l: &'a RwLock<T>,
    sim: bool,
}

pub struct RwLockWriteGuard<'a, T: ?Sized + 'a> {
    guard: Option<std::sync::RwLockWriteGuard<'a, T>>,
    l: &'a RwLock<T>,
    sim: bool,
}

impl<T> RwLock<T> {
    pub const fn new(t: T) -> Self {
        RwLock {
            readers: AtomicUsize::new(0),
            writer: StdAtomicBool::new(false),
            id: AtomicU64::new(0),
            inner: std::sync::RwLock::new(t),
        }
    }
}

impl<T: ?Sized> RwLock<T> {
    pub fn read(&self) -> LockResult<RwLockReadGuard<'_, T>> {
        let in_sim = sim::in_sim();
        if in_sim {
            loop {
                sim::yield_now("rwlock.read");
                if !self.writer.load(Ordering::SeqCst) {
                    self.readers.fetch_add(1, Ordering::SeqCst);
                    break;
                }
                sim::block_on(lazy_res(&self.id), None, "rwlock.read(wait)");
            }
        }
        match self.inner.read() {
            Ok(g) => Ok(RwLockReadGuard { guard: Some(g), l: self, sim: in_sim }),
            Err(e) => Err(PoisonError::new(RwLockReadGuard {
                guard: Some(e.into_inner()),
                l: self,
                sim: in_sim,
            })),
        }
    }

    pub fn write(&self) -> LockResult<RwLockWriteGuard<'_, T>> {
        let in_sim = sim::in_sim();
        if in_sim {
            loop {
                sim::yield_now("rwlock.write");
                if !self.writer.load(Ordering::SeqCst) && self.readers.load(Ordering::SeqCst) == 0 {
                    self.writer.store(true, Ordering::SeqCst);
                    break;
                }
                sim::block_on(lazy_res(&self.id), None, "rwlock.write(wait)");
            }
        }
        match self.inner.write() {
            Ok(g) => Ok(RwLockWriteGuard { guard: Some(g), l: self, sim: in_sim }),
            Err(e) => Err(PoisonError::new(RwLockWriteGuard {
                guard: Some(e.into_inner()),
                l: self,
                sim: in_sim,
            })),
        }
    }
}

impl<T: ?Sized> Drop for RwLockReadGuard<'_, T> {
    fn drop(&mut self) {
        self.guard.take();
        if self.sim {
            self.l.readers.fetch_sub(1, Ordering::SeqCst);
            let id = self.l.id.load(Ordering::Relaxed);
            if id != 0 {
                sim::wake(id);
            }
        }
    }
}

impl<T: ?Sized> Drop for RwLockWriteGuard<'_, T> {
    fn drop(&mut self) {
        self.guard.take();
        if self.sim {
            self.l.writer.store(false, Ordering::SeqCst);
            let id = self.l.id.load(Ordering::Relaxed);
            if id != 0 {
                sim::wake(id);
            }
        }
    }
}

impl<T: ?Sized> Deref for RwLockReadGuard<'_, T> {
    type Target = T;
    fn deref(&self) -> &T {
        self.guard.as_ref().unwrap()
    }
}
impl<T: ?Sized> Deref for RwLockWriteGuard<'_, T> {
    type Target = T;
    fn deref(&self) -> &T {
        self.guard.as_ref().unwrap()
    }
}
impl<T: ?Sized> DerefMut for RwLockWriteGuard<'_, T> {
    fn deref_mut(&mut self) -> &mut T {
        self.guard.as_mut().unwrap()
    }
}

impl<T: ?Sized + fmt::Debug> fmt::Debug for RwLock<T> {
    fn fmt(&self, f: &mut fmt::Formatter<'_>) -> fmt::Result {
        self.inner.fmt(f)
    }
}

impl<T: Default> Default for RwLock<T> {
    fn default() -> Self {
        RwLock::new(T::default())
    }
}

// ---------------------------------------------------------------- atomics

pub mod atomic {
    pub use std::sync::atomic::Ordering;
    use std::sync::atomic::AtomicBool as Std;

    /// `AtomicBool` whose accesses are decision points inside a simulation.
    #[derive(Debug, Default)]
    pub struct AtomicBool(Std);

    impl AtomicBool {
        pub const fn new(v: bool) -> Self {
            AtomicBool(Std::new(v))
        }
        pub fn load(&self, o: Ordering) -> bool {
            crate::sim::yield_now("atomic.load");
            self.0.load(o)
        }
        pub fn store(&self, v: bool, o: Ordering) {
            crate::sim::yield_now("atomic.store");
            self.0.store(v, o)
        }
        pub fn swap(&self, v: bool, o: Ordering) -> bool {
            crate::sim::yield_now("atomic.swap");
            self.0.swap(v, o)
        }
    }
}

// ---------------------------------------------------------------- mpsc

pub mod mpsc {
    use crate::sim;
    use std::collections::VecDeque;
    use std::fmt;
    use std::sync::atomic::{AtomicBool, AtomicU64, AtomicUsize, Ordering};
    pub use std::sync::mpsc::{RecvError, RecvTimeoutError, SendError, TryRecvError};
    use std::sync::{Arc, Condvar, Mutex};
    use std::time::Duration;

    struct Q<T> {
        items: VecDeque<T>,
        popped: u64,
        pushed: u64,
    }

    struct Chan<T> {
        q: Mutex<Q<T>>,
        cv: Condvar,
        senders: AtomicUsize,
        rx_alive: AtomicBool,
        id: AtomicU64,
        /// None = unbounded, Some(n) = sync_channel(n)
        bound: Option<usize>,
    }

    impl<T> Chan<T> {
        fn res(&self) -> sim::Res {
            super::lazy_res(&self.id)
        }
        fn notify(&self) {
            if sim::in_sim() {
                let id = self.id.load(Ordering::Relaxed);
                if id != 0 {
                    sim::wake(id);
                }
            }
            self.cv.notify_all();
        }
        fn lock(&self) -> std::sync::MutexGuard<'_, Q<T>> {
            self.q.lock().unwrap_or_else(|e| e.into_inner())
        }
    }

    pub struct Sender<T> {
        c: Arc<Chan<T>>,
    }
    pub struct SyncSender<T> {
        c: Arc<Chan<T>>,
    }
    pub struct Receiver<T> {
        c: Arc<Chan<T>>,
    }

    fn new_chan<T>(bound: Option<usize>) -> Arc<Chan<T>> {
        Arc::new(Chan {
            q: Mutex::new(Q { items: VecDeque::new(), popped: 0, pushed: 0 }),
            cv: Condvar::new(),
            senders: AtomicUsize::new(1),
            rx_alive: AtomicBool::new(true),
            id: AtomicU64::new(0),
            bound,
        })
    }

    pub fn channel<T>() -> (Sender<T>, Receiver<T>) {
        let c = new_chan(None);
        (Sender { c: c.clone() }, Receiver { c })
    }

    pub fn sync_channel<T>(bound: usize) -> (SyncSender<T>, Receiver<T>) {
        let c = new_chan(Some(bound));
        (SyncSender { c: c.clone() }, Receiver { c })
    }

    fn send_impl<T>(c: &Arc<Chan<T>>, t: T) -> Result<(), SendError<T>> {
        let in_sim = sim::in_sim();
        if in_sim {
            sim::yield_now("chan.send");
        }
        // wait for room (bounded channels)
        let ticket;
        loop {
            if !c.rx_alive.load(Ordering::SeqCst) {
                return Err(SendError(t));
            }
            let mut q = c.lock();
            let room = match c.bound {
                None => true,
                Some(0) => true,
                Some(n) => q.items.len() < n,
            };
            if room {
                q.items.push_back(t);
                q.pushed += 1;
                ticket = q.pushed;
                drop(q);
                c.notify();
                break;
            }
            if in_sim {
                drop(q);
                sim::block_on(c.res(), None, "chan.send(full)");
            } else {
                let _g = c.cv.wait(q).unwrap_or_else(|e| e.into_inner());
            }
        }
        // rendezvous: wait until taken
        if c.bound == Some(0) {
            loop {
                let q = c.lock();
                if q.popped >= ticket || !c.rx_alive.load(Ordering::SeqCst) {
                    break;
                }
                if in_sim {
                    drop(q);
                    sim::block_on(c.res(), None, "chan.send(rendezvous)");
                } else {
                    let _g = c.cv.wait(q).unwrap_or_else(|e| e.into_inner());
                }
            }
        }
        Ok(())
    }

    impl<T> Sender<T> {
        pub fn send(&self, t: T) -> Result<(), SendError<T>> {
            send_impl(&self.c, t)
        }
    }
    impl<T> SyncSender<T> {
        pub fn send(&self, t: T) -> Result<(), SendError<T>> {
            send_impl(&self.c, t)
        }
    }

    impl<T> Clone for Sender<T> {
        fn clone(&self) -> Self {
            self.c.senders.fetch_add(1, Ordering::SeqCst);
            Sender { c: self.c.clone() }
        }
    }
    impl<T> Clone for SyncSender<T> {
        fn clone(&self) -> Self {
            self.c.senders.fetch_add(1, Ordering::SeqCst);
            SyncSender { c: self.c.clone() }
        }
    }
    fn drop_sender<T>(c: &Arc<Chan<T>>) {
        if c.senders.fetch_sub(1, Ordering::SeqCst) == 1 {
            c.notify();
        }
    }
    impl<T> Drop for Sender<T> {
        fn drop(&mut self) {
            drop_sender(&self.c)
        }
    }
    impl<T> Drop for SyncSender<T> {
        fn drop(&mut self) {
            drop_sender(&self.c)
        }
    }
    impl<T> Drop for Receiver<T> {
        fn drop(&mut self) {
            self.c.rx_alive.store(false, Ordering::SeqCst);
            // std drops queued messages when the receiver goes away
            let items: Vec<T> = self.c.lock().items.drain(..).collect();
            self.c.notify();
            drop(items);
        }
    }

    impl<T> Receiver<T> {
        fn pop(&self) -> Result<T, TryRecvError> {
            let mut q = self.c.lock();
            match q.items.pop_front() {
                Some(t) => {
                    q.popped += 1;
                    drop(q);
                    if self.c.bound.is_some() {
                        self.c.notify();
                    }
                    Ok(t)
                }
                None => {
                    if self.c.senders.load(Ordering::SeqCst) == 0 {
                        Err(TryRecvError::Disconnected)
                    } else {
                        Err(TryRecvError::Empty)
                    }
                }
            }
        }

        pub fn try_recv(&self) -> Result<T, TryRecvError> {
            if sim::in_sim() {
                sim::yield_now("chan.try_recv");
            }
            self.pop()
        }

        pub fn recv(&self) -> Result<T, RecvError> {
            let in_sim = sim::in_sim();
            if in_sim {
                sim::yield_now("chan.recv");
            }
            loop {
                match self.pop() {
                    Ok(t) => return Ok(t),
                    Err(TryRecvError::Disconnected) => return Err(RecvError),
                    Err(TryRecvError::Empty) => {}
                }
                if in_sim {
                    sim::block_on(self.c.res(), None, "chan.recv(wait)");
                } else {
                    let q = self.c.lock();
                    if q.items.is_empty() && self.c.senders.load(Ordering::SeqCst) > 0 {
                        let _g = self
                            .c
                            .cv
                            .wait_timeout(q, Duration::from_millis(50))
                            .unwrap_or_else(|e| e.into_inner());
                    }
                }
            }
        }

        pub fn recv_timeout(&self, d: Duration) -> Result<T, RecvTimeoutError> {
            let in_sim = sim::in_sim();
            if !in_sim {
                let end = std::time::Instant::now() + d;
                loop {
                    match self.pop() {
                        Ok(t) => return Ok(t),
                        Err(TryRecvError::Disconnected) => return Err(RecvTimeoutError::Disconnected),
                        Err(TryRecvError::Empty) => {}
                    }
                    let now = std::time::Instant::now();
                    if now >= end {
                        return Err(RecvTimeoutError::Timeout);
                    }
                    let q = self.c.lock();
                    if q.items.is_empty() {
                        let _g = self
                            .c
                            .cv
                            .wait_timeout(q, (end - now).min(Duration::from_millis(50)))
                            .unwrap_or_else(|e| e.into_inner());
                    }
                }
            }
            sim::yield_now("chan.recv_timeout");
            let at = sim::now_ns().saturating_add(d.as_nanos().min(u64::MAX as u128 / 4) as u64);
            loop {
                match self.pop() {
                    Ok(t) => return Ok(t),
                    Err(TryRecvError::Disconnected) => return Err(RecvTimeoutError::Disconnected),
                    Err(TryRecvError::Empty) => {}
                }
                if sim::now_ns() >= at {
                    return Err(RecvTimeoutError::Timeout);
                }
                sim::block_on(self.c.res(), Some(at), "chan.recv_timeout(wait)");
            }
        }

        pub fn try_iter(&self) -> TryIter<'_, T> {
            TryIter { rx: self }
        }
        pub fn iter(&self) -> Iter<'_, T> {
            Iter { rx: self }
        }
    }

    pub struct TryIter<'a, T> {
        rx: &'a Receiver<T>,
    }
    impl<T> Iterator for TryIter<'_, T> {
        type Item = T;
        fn next(&mut self) -> Option<T> {
            self.rx.try_recv().ok()
        }
    }
    pub struct Iter<'a, T> {
        rx: &'a Receiver<T>,
    }
    impl<T> Iterator for Iter<'_, T> {
        type Item = T;
        fn next(&mut self) -> Option<T> {
            self.rx.recv().ok()
        }
    }
    pub struct IntoIter<T> {
        rx: Receiver<T>,
    }
    impl<T> Iterator for IntoIter<T> {
        type Item = T;
        fn next(&mut self) -> Option<T> {
            self.rx.recv().ok()
        }
    }
    impl<'a, T> IntoIterator for &'a Receiver<T> {
        type Item = T;
        type IntoIter = Iter<'a, T>;
        fn into_iter(self) -> Iter<'a, T> {
            self.iter()
        }
    }
    impl<T> IntoIterator for Receiver<T> {
        type Item = T;
        type IntoIter = IntoIter<T>;
        fn into_iter(self) -> IntoIter<T> {
            IntoIter { rx: self }
        }
    }

    impl<T> fmt::Debug for Sender<T> {
        fn fmt(&self, f: &mut fmt::Formatter<'_>) -> fmt::Result {
            f.write_str("Sender { .. }")
        }
    }
    impl<T> fmt::Debug for SyncSender<T> {
        fn fmt(&self, f: &mut fmt::Formatter<'_>) -> fmt::Result {
            f.write_str("SyncSender { .. }")
        }
    }
    impl<T> fmt::Debug for Receiver<T> {
        fn fmt(&self, f: &mut fmt::Formatter<'_>) -> fmt::Result {
            f.write_str("Receiver { .. }")
        }
    }
}
