//! Placeholder for the tokio transport seam (built only with the `tokio` feature).
