//! The tokio transport seam: `TcpListener` / `TcpStream` as in-memory ordered byte streams
//! for a `current_thread` runtime with a paused clock (`start_paused`), so that delivery
//! delays are `tokio::time` timers on the virtual clock and one seed decides every latency,
//! segmentation cut and short read.  Same semantics as `crate::net`: writes are cut into
//! segments, each delivered at `max(previous delivery, now + latency)`; FIN after in-flight
//! data; RST; bounded receive window.

use crate::net::Seg;
use crate::rng::Rng;

use std::collections::{BTreeMap, VecDeque};
use std::future::Future;
use std::io;
use std::net::{IpAddr, Ipv4Addr, Ipv6Addr, SocketAddr};
use std::pin::Pin;
use std::sync::Mutex;
use std::task::{Context, Poll, Waker};
use std::time::Duration;

use tokio::io::{AsyncRead, AsyncWrite, ReadBuf};
use tokio::time::{Instant, Sleep};

pub use tokio::net::ToSocketAddrs;

#[derive(Clone, Debug)]
pub struct Config {
    pub seed: u64,
    /// SystemTime::now() at the start of the run, seconds since the epoch
    pub epoch_secs: u64,
    pub latency_min_us: u64,
    pub latency_max_us: u64,
    pub rx_capacity: usize,
    pub short_read_permille: u32,
    /// a write accepts only part of the buffer with this probability (a socket may always do so)
    pub short_write_permille: u32,
    pub default_seg: Seg,
}

impl Default for Config {
    fn default() -> Self {
        Config { seed: 1, epoch_secs: 1_700_000_000, latency_min_us: 50, latency_max_us: 200, rx_capacity: 256 * 1024, short_read_permille: 0, short_write_permille: 0, default_seg: Seg::Whole }
    }
}

enum Item {
    Data(Vec<u8>),
    Fin,
    Rst,
}

struct Ep {
    local: SocketAddr,
    peer: SocketAddr,
    rx: VecDeque<u8>,
    inflight: VecDeque<(Instant, Item)>,
    inflight_bytes: usize,
    last_at: Option<Instant>,
    fin_rcvd: bool,
    rst_rcvd: bool,
    closed: bool,
    wr_shut: bool,
    cap: usize,
    seg: Option<Seg>,
    read_waker: Option<Waker>,
    write_waker: Option<Waker>,
    delivered_total: u64,
}

struct ListenerState {
    backlog: VecDeque<usize>,
    waker: Option<Waker>,
}

struct Net {
    t0: Instant,
    cfg: Config,
    rng: Rng,
    listeners: BTreeMap<SocketAddr, ListenerState>,
    eps: Vec<Ep>,
    next_port: u16,
    counters: BTreeMap<&'static str, u64>,
}

static NET: Mutex<Option<Net>> = Mutex::new(None);

fn with_net<R>(f: impl FnOnce(&mut Net) -> R) -> io::Result<R> {
    let mut g = NET.lock().unwrap_or_else(|e| e.into_inner());
    match g.as_mut() {
        Some(n) => Ok(f(n)),
        None => Err(io::Error::new(io::ErrorKind::Unsupported, "humsim::tokio_net used outside a simulation")),
    }
}

/// Start a fresh simulated network (call inside the runtime, before the code under test).
pub fn reset(cfg: Config) {
    let rng = Rng::new(cfg.seed);
    *NET.lock().unwrap_or_else(|e| e.into_inner()) = Some(Net { t0: Instant::now(), cfg, rng, listeners: BTreeMap::new(), eps: Vec::new(), next_port: 40_000, counters: BTreeMap::new() });
}

/// Virtual wall clock of the active tokio simulation (nanoseconds since the epoch).
pub fn wall_ns() -> Option<u128> {
    let g = NET.lock().unwrap_or_else(|e| e.into_inner());
    g.as_ref().map(|n| n.cfg.epoch_secs as u128 * 1_000_000_000 + n.t0.elapsed().as_nanos())
}

/// End the simulation: drop all state, return the counters.
pub fn finish() -> BTreeMap<String, u64> {
    let n = NET.lock().unwrap_or_else(|e| e.into_inner()).take();
    n.map(|n| n.counters.iter().map(|(k, v)| (k.to_string(), *v)).collect()).unwrap_or_default()
}

impl Net {
    fn count(&mut self, k: &'static str) {
        *self.counters.entry(k).or_insert(0) += 1;
    }
    fn push(&mut self, to: usize, item: Item, later_segment: bool) {
        let lat = self.cfg.latency_min_us + self.rng.below(self.cfg.latency_max_us.max(self.cfg.latency_min_us) - self.cfg.latency_min_us + 1);
        let now = Instant::now();
        let e = &mut self.eps[to];
        let mut at = now + Duration::from_micros(lat);
        if let Some(l) = e.last_at {
            if at < l {
                at = l;
            }
            if later_segment {
                at = l.max(now + Duration::from_micros(self.cfg.latency_min_us)) + Duration::from_nanos(1 + (lat * 7) % 500);
            }
        }
        e.last_at = Some(at);
        if let Item::Data(d) = &item {
            e.inflight_bytes += d.len();
        }
        e.inflight.push_back((at, item));
        if let Some(w) = e.read_waker.take() {
            w.wake();
        }
    }
    /// Move due items into the receive buffer; returns the instant of the next pending one.
    fn deliver(&mut self, ep: usize) -> Option<Instant> {
        let now = Instant::now();
        let e = &mut self.eps[ep];
        while let Some((at, _)) = e.inflight.front() {
            if *at > now {
                return Some(*at);
            }
            let (_, item) = e.inflight.pop_front().unwrap();
            match item {
                Item::Data(d) => {
                    e.inflight_bytes -= d.len();
                    if !e.closed {
                        e.delivered_total += d.len() as u64;
                        e.rx.extend(d);
                    }
                }
                Item::Fin => e.fin_rcvd = true,
                Item::Rst => e.rst_rcvd = true,
            }
        }
        None
    }
    fn find_listener(&self, dst: SocketAddr) -> Option<SocketAddr> {
        if self.listeners.contains_key(&dst) {
            return Some(dst);
        }
        let unspec: IpAddr = if dst.is_ipv4() { IpAddr::V4(Ipv4Addr::UNSPECIFIED) } else { IpAddr::V6(Ipv6Addr::UNSPECIFIED) };
        let k = SocketAddr::new(unspec, dst.port());
        if self.listeners.contains_key(&k) {
            Some(k)
        } else {
            None
        }
    }
    fn close(&mut self, ep: usize, rst: bool) {
        let peer = ep ^ 1;
        if self.eps[ep].closed {
            return;
        }
        self.eps[ep].closed = true;
        let was_shut = self.eps[ep].wr_shut;
        self.eps[ep].wr_shut = true;
        self.eps[ep].rx.clear();
        if rst {
            self.push(peer, Item::Rst, false);
            self.count("tnet.rst_sent");
        } else if !was_shut {
            self.push(peer, Item::Fin, false);
        }
        if let Some(w) = self.eps[peer].write_waker.take() {
            w.wake();
        }
    }
}

async fn resolve<A: ToSocketAddrs>(a: A) -> io::Result<SocketAddr> {
    tokio::net::lookup_host(a).await?.next().ok_or_else(|| io::Error::new(io::ErrorKind::InvalidInput, "no address"))
}

pub struct TcpListener {
    addr: SocketAddr,
}

impl TcpListener {
    pub async fn bind<A: ToSocketAddrs>(addr: A) -> io::Result<TcpListener> {
        let addr = resolve(addr).await?;
        with_net(|n| {
            let conflict = n.listeners.keys().any(|k| k.port() == addr.port() && k.is_ipv4() == addr.is_ipv4() && (k.ip() == addr.ip() || k.ip().is_unspecified() || addr.ip().is_unspecified()));
            if conflict {
                return Err(io::Error::new(io::ErrorKind::AddrInUse, "address in use (simulated)"));
            }
            n.listeners.insert(addr, ListenerState { backlog: VecDeque::new(), waker: None });
            Ok(TcpListener { addr })
        })?
    }

    pub fn local_addr(&self) -> io::Result<SocketAddr> {
        Ok(self.addr)
    }

    pub fn poll_accept(&self, cx: &mut Context<'_>) -> Poll<io::Result<(TcpStream, SocketAddr)>> {
        let r = with_net(|n| match n.listeners.get_mut(&self.addr) {
            None => Poll::Ready(Err(io::Error::new(io::ErrorKind::InvalidInput, "listener closed"))),
            Some(l) => match l.backlog.pop_front() {
                Some(ep) => Poll::Ready(Ok(ep)),
                None => {
                    l.waker = Some(cx.waker().clone());
                    Poll::Pending
                }
            },
        });
        match r {
            Err(e) => Poll::Ready(Err(e)),
            Ok(Poll::Pending) => Poll::Pending,
            Ok(Poll::Ready(Err(e))) => Poll::Ready(Err(e)),
            Ok(Poll::Ready(Ok(ep))) => {
                let peer = with_net(|n| n.eps[ep].peer).unwrap();
                Poll::Ready(Ok((TcpStream { ep, sleep: None }, peer)))
            }
        }
    }

    pub async fn accept(&self) -> io::Result<(TcpStream, SocketAddr)> {
        std::future::poll_fn(|cx| self.poll_accept(cx)).await
    }
}

impl Drop for TcpListener {
    fn drop(&mut self) {
        let _ = with_net(|n| {
            if let Some(l) = n.listeners.remove(&self.addr) {
                for ep in l.backlog {
                    n.close(ep, true);
                }
            }
        });
    }
}

pub struct TcpStream {
    ep: usize,
    sleep: Option<Pin<Box<Sleep>>>,
}

impl TcpStream {
    pub async fn connect<A: ToSocketAddrs>(addr: A) -> io::Result<TcpStream> {
        let dst = resolve(addr).await?;
        Self::connect_from(None, dst).await
    }

    /// Harness extension: choose the source address.
    pub async fn connect_from(src: Option<SocketAddr>, dst: SocketAddr) -> io::Result<TcpStream> {
        // a decision point for task interleaving
        tokio::task::yield_now().await;
        with_net(|n| {
            let mut target = dst;
            if dst.ip().is_unspecified() {
                target.set_ip(if dst.is_ipv4() { IpAddr::V4(Ipv4Addr::LOCALHOST) } else { IpAddr::V6(Ipv6Addr::LOCALHOST) });
            }
            let key = match n.find_listener(target) {
                Some(k) => k,
                None => {
                    n.count("tnet.connect_refused");
                    return Err(io::Error::new(io::ErrorKind::ConnectionRefused, "connection refused (simulated)"));
                }
            };
            let local = src.unwrap_or_else(|| {
                let ip = if target.is_ipv4() { IpAddr::V4(Ipv4Addr::LOCALHOST) } else { IpAddr::V6(Ipv6Addr::LOCALHOST) };
                SocketAddr::new(ip, 0)
            });
            let local = if local.port() == 0 {
                let p = n.next_port;
                n.next_port += 1;
                SocketAddr::new(local.ip(), p)
            } else {
                local
            };
            let cap = n.cfg.rx_capacity;
            let mk = |local, peer| Ep { local, peer, rx: VecDeque::new(), inflight: VecDeque::new(), inflight_bytes: 0, last_at: None, fin_rcvd: false, rst_rcvd: false, closed: false, wr_shut: false, cap, seg: None, read_waker: None, write_waker: None, delivered_total: 0 };
            let ci = n.eps.len();
            n.eps.push(mk(local, target));
            n.eps.push(mk(target, local));
            let l = n.listeners.get_mut(&key).unwrap();
            l.backlog.push_back(ci + 1);
            if let Some(w) = l.waker.take() {
                w.wake();
            }
            n.count("tnet.connect_ok");
            Ok(TcpStream { ep: ci, sleep: None })
        })?
    }

    pub fn peer_addr(&self) -> io::Result<SocketAddr> {
        with_net(|n| n.eps[self.ep].peer)
    }
    pub fn local_addr(&self) -> io::Result<SocketAddr> {
        with_net(|n| n.eps[self.ep].local)
    }
    pub fn set_nodelay(&self, _: bool) -> io::Result<()> {
        Ok(())
    }
    /// Harness extensions.
    pub fn sim_set_seg(&self, seg: Seg) {
        let _ = with_net(|n| n.eps[self.ep].seg = Some(seg));
    }
    pub fn sim_set_window(&self, cap: usize) {
        let _ = with_net(|n| n.eps[self.ep].cap = cap.max(1));
    }
    pub fn sim_reset(&self) {
        let _ = with_net(|n| n.close(self.ep, true));
    }
    pub fn sim_delivered(&self) -> u64 {
        with_net(|n| n.eps[self.ep].delivered_total).unwrap_or(0)
    }
}

impl Drop for TcpStream {
    fn drop(&mut self) {
        let _ = with_net(|n| n.close(self.ep, false));
    }
}

impl AsyncRead for TcpStream {
    fn poll_read(mut self: Pin<&mut Self>, cx: &mut Context<'_>, buf: &mut ReadBuf<'_>) -> Poll<io::Result<()>> {
        let ep = self.ep;
        let r = with_net(|n| {
            let next = n.deliver(ep);
            let short = n.cfg.short_read_permille;
            let e = &mut n.eps[ep];
            if !e.rx.is_empty() {
                let mut k = buf.remaining().min(e.rx.len());
                if k == 0 {
                    return Ok(Poll::Ready(()));
                }
                let mut cut = false;
                if short > 0 && k > 1 && n.rng.below(1000) < short as u64 {
                    k = 1 + n.rng.below(k as u64 - 1) as usize;
                    cut = true;
                }
                let e = &mut n.eps[ep];
                let (a, b) = e.rx.as_slices();
                if k <= a.len() {
                    buf.put_slice(&a[..k]);
                } else {
                    buf.put_slice(a);
                    buf.put_slice(&b[..k - a.len()]);
                }
                e.rx.drain(..k);
                if cut {
                    n.count("tnet.short_read");
                }
                if let Some(w) = n.eps[ep ^ 1].write_waker.take() {
                    w.wake();
                }
                return Ok(Poll::Ready(()));
            }
            if e.rst_rcvd {
                return Err(io::Error::new(io::ErrorKind::ConnectionReset, "connection reset (simulated)"));
            }
            if e.fin_rcvd || e.closed {
                return Ok(Poll::Ready(())); // EOF
            }
            e.read_waker = Some(cx.waker().clone());
            Ok(Poll::Pending::<()>).map(|p| {
                let _ = next;
                p
            })
        });
        let next_at = with_net(|n| n.eps[ep].inflight.front().map(|x| x.0)).ok().flatten();
        match r {
            Err(e) => Poll::Ready(Err(e)),
            Ok(Err(e)) => Poll::Ready(Err(e)),
            Ok(Ok(Poll::Ready(()))) => {
                self.sleep = None;
                Poll::Ready(Ok(()))
            }
            Ok(Ok(Poll::Pending)) => {
                // arm a timer for the next in-flight segment
                if let Some(at) = next_at {
                    let mut s = Box::pin(tokio::time::sleep_until(at));
                    if s.as_mut().poll(cx).is_ready() {
                        cx.waker().wake_by_ref();
                    }
                    self.sleep = Some(s);
                }
                Poll::Pending
            }
        }
    }
}

impl AsyncWrite for TcpStream {
    fn poll_write(self: Pin<&mut Self>, cx: &mut Context<'_>, buf: &[u8]) -> Poll<io::Result<usize>> {
        let ep = self.ep;
        let peer = ep ^ 1;
        let r = with_net(|n| {
            // the peer's buffer drains only when it reads; account for what is due
            let _ = n.deliver(peer);
            let e = &n.eps[ep];
            if e.wr_shut || e.closed {
                return Err(io::Error::new(io::ErrorKind::BrokenPipe, "write after shutdown (simulated)"));
            }
            if e.rst_rcvd {
                return Err(io::Error::new(io::ErrorKind::ConnectionReset, "connection reset (simulated)"));
            }
            if buf.is_empty() {
                return Ok(Poll::Ready(0));
            }
            let p = &n.eps[peer];
            if p.closed {
                n.count("tnet.write_to_closed_peer");
                return Err(io::Error::new(io::ErrorKind::BrokenPipe, "peer closed (simulated)"));
            }
            let used = p.rx.len() + p.inflight_bytes;
            if used >= p.cap {
                n.count("tnet.window_full");
                n.eps[ep].write_waker = Some(cx.waker().clone());
                return Ok(Poll::Pending);
            }
            let mut k = buf.len().min(p.cap - used);
            let shortw = n.cfg.short_write_permille;
            if shortw > 0 && k > 1 && n.rng.below(1000) < shortw as u64 {
                k = 1 + n.rng.below(k as u64 - 1) as usize;
                n.count("tnet.short_write");
            }
            let seg = n.eps[ep].seg.clone().unwrap_or_else(|| n.cfg.default_seg.clone());
            let mut cuts: Vec<usize> = match seg {
                Seg::Whole => vec![],
                Seg::OneByte => (1..k).collect(),
                Seg::Fixed(x) => (1..k).filter(|i| i % x.max(1) == 0).collect(),
                Seg::Random(m) => {
                    let mut c = std::collections::BTreeSet::new();
                    if k > 1 {
                        for _ in 0..n.rng.below(m as u64 + 1) {
                            c.insert(1 + n.rng.below(k as u64 - 1) as usize);
                        }
                    }
                    c.into_iter().collect()
                }
            };
            cuts.push(k);
            let mut start = 0;
            let mut first = true;
            if cuts.len() > 1 {
                n.count("tnet.segmented_write");
            }
            for c in cuts {
                n.push(peer, Item::Data(buf[start..c].to_vec()), !first);
                start = c;
                first = false;
            }
            Ok(Poll::Ready(k))
        });
        match r {
            Err(e) | Ok(Err(e)) => Poll::Ready(Err(e)),
            Ok(Ok(Poll::Pending)) => Poll::Pending,
            Ok(Ok(Poll::Ready(k))) => Poll::Ready(Ok(k)),
        }
    }
    fn poll_flush(self: Pin<&mut Self>, _cx: &mut Context<'_>) -> Poll<io::Result<()>> {
        Poll::Ready(Ok(()))
    }
    fn poll_shutdown(self: Pin<&mut Self>, _cx: &mut Context<'_>) -> Poll<io::Result<()>> {
        let ep = self.ep;
        let _ = with_net(|n| {
            if !n.eps[ep].wr_shut && !n.eps[ep].closed {
                n.eps[ep].wr_shut = true;
                n.push(ep ^ 1, Item::Fin, false);
            }
        });
        Poll::Ready(Ok(()))
    }
}

impl std::fmt::Debug for TcpStream {
    fn fmt(&self, f: &mut std::fmt::Formatter<'_>) -> std::fmt::Result {
        write!(f, "SimTokioTcpStream(ep {})", self.ep)
    }
}
