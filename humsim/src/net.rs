//! Simulated TCP: the subset of `std::net` Humphrey uses, as in-memory ordered byte
//! streams with explicit segmentation, latency, windows, FIN/RST and timeouts on the
//! virtual clock.  Only usable inside a simulation (outside, every call fails).

use crate::sim::{self, State, TimerKind};

use std::collections::{BTreeMap, BTreeSet, VecDeque};
use std::io::{self, ErrorKind, Read, Write};
pub use std::net::{IpAddr, Ipv4Addr, Ipv6Addr, Shutdown, SocketAddr, ToSocketAddrs};
use std::sync::Arc;
use std::time::Duration;

/// How the bytes of one `write` are cut into segments (each delivered at its own time).
#[derive(Clone, Debug, PartialEq, Eq)]
pub enum Seg {
    /// one segment per write
    Whole,
    /// segments of exactly k bytes
    Fixed(usize),
    /// one byte per segment
    OneByte,
    /// up to n PRNG cuts per write
    Random(usize),
}

#[derive(Clone, Debug)]
pub struct NetConfig {
    pub latency_min_ns: u64,
    pub latency_max_ns: u64,
    /// receive window (delivered + in flight) per endpoint
    pub rx_capacity: usize,
    /// probability (permille) that a read returns fewer bytes than it could
    pub short_read_permille: u32,
    /// probability (permille) that a write accepts fewer bytes than it could
    pub short_write_permille: u32,
    /// probability (permille) that a blocking read/write fails with `Interrupted`
    pub eintr_permille: u32,
    /// connecting to 0.0.0.0 / [::] fails (Windows-like) instead of reaching loopback
    pub strict_unspecified: bool,
    /// a listener on [::] also accepts IPv4 connections, which it sees as coming from the
    /// IPv4-mapped address ::ffff:a.b.c.d (Linux default, net.ipv6.bindv6only = 0)
    pub dual_stack: bool,
    /// segmentation of writes on endpoints without an explicit policy
    pub default_seg: Seg,
}

impl Default for NetConfig {
    fn default() -> Self {
        NetConfig {
            latency_min_ns: 50_000,
            latency_max_ns: 200_000,
            rx_capacity: 256 * 1024,
            short_read_permille: 0,
            short_write_permille: 0,
            eintr_permille: 0,
            strict_unspecified: false,
            dual_stack: true,
            default_seg: Seg::Whole,
        }
    }
}

enum Item {
    Data(Vec<u8>),
    Fin,
    Rst,
}

struct Ep {
    local: SocketAddr,
    peer: SocketAddr,
    rx: VecDeque<u8>,
    inflight: VecDeque<(u64, Item)>,
    inflight_bytes: usize,
    last_at: u64,
    fin_rcvd: bool,
    rst_rcvd: bool,
    /// all handles dropped, or shutdown(Both)
    closed: bool,
    wr_shut: bool,
    rd_shut: bool,
    read_timeout: Option<u64>,
    write_timeout: Option<u64>,
    nonblocking: bool,
    rres: sim::Res,
    wres: sim::Res,
    seg: Option<Seg>,
    cap: usize,
    eintr_left: u32,
    handles: usize,
    silent: bool,
    /// total bytes this endpoint has had delivered to it
    delivered_total: u64,
}

struct Listener {
    res: sim::Res,
    backlog: VecDeque<usize>,
}

pub(crate) struct Net {
    cfg: NetConfig,
    listeners: BTreeMap<SocketAddr, Listener>,
    eps: Vec<Ep>,
    next_port: u16,
    blackholes: BTreeSet<SocketAddr>,
}

pub(crate) enum Blocked {
    /// would block: wait on this resource
    Wait(sim::Res),
    Err(io::Error),
}

fn err(kind: ErrorKind, msg: &'static str) -> io::Error {
    io::Error::new(kind, msg)
}

impl Net {
    pub(crate) fn new(cfg: &NetConfig) -> Self {
        Net {
            cfg: cfg.clone(),
            listeners: BTreeMap::new(),
            eps: Vec::new(),
            next_port: 40_000,
            blackholes: BTreeSet::new(),
        }
    }

    /// Move due in-flight items of `ep` into its receive buffer; returns the resource to wake.
    pub(crate) fn deliver(&mut self, ep: usize, now: u64) -> Option<sim::Res> {
        let e = &mut self.eps[ep];
        let mut any = false;
        while let Some((at, _)) = e.inflight.front() {
            if *at > now {
                break;
            }
            let (_, item) = e.inflight.pop_front().unwrap();
            any = true;
            match item {
                Item::Data(d) => {
                    e.inflight_bytes -= d.len();
                    if !e.closed && !e.rd_shut {
                        e.delivered_total += d.len() as u64;
                        e.rx.extend(d);
                    }
                }
                Item::Fin => e.fin_rcvd = true,
                Item::Rst => {
                    e.rst_rcvd = true;
                }
            }
        }
        if any {
            Some(e.rres)
        } else {
            None
        }
    }

    fn find_listener(&self, dst: SocketAddr) -> Option<SocketAddr> {
        if self.listeners.contains_key(&dst) {
            return Some(dst);
        }
        let unspec: IpAddr = match dst.ip() {
            IpAddr::V4(_) => IpAddr::V4(Ipv4Addr::UNSPECIFIED),
            IpAddr::V6(_) => IpAddr::V6(Ipv6Addr::UNSPECIFIED),
        };
        let k = SocketAddr::new(unspec, dst.port());
        if self.listeners.contains_key(&k) {
            return Some(k);
        }
        None
    }
}

impl State {
    fn net_push(&mut self, to: usize, item: Item, gap_first: bool) {
        let lat = {
            let (lo, hi) = (self.net.cfg.latency_min_ns, self.net.cfg.latency_max_ns.max(self.net.cfg.latency_min_ns));
            lo + self.frng.below(hi - lo + 1)
        };
        let now = self.now;
        let e = &mut self.net.eps[to];
        let mut at = now + lat;
        if at < e.last_at {
            at = e.last_at;
        }
        if gap_first {
            // later segments of one write leave back-to-back: a small gap, not another latency
            at = e.last_at.max(now + self.net.cfg.latency_min_ns) + 1 + lat % 500;
        }
        e.last_at = at;
        if let Item::Data(d) = &item {
            e.inflight_bytes += d.len();
        }
        e.inflight.push_back((at, item));
        self.add_timer(at, TimerKind::NetDeliver { ep: to });
    }

    pub(crate) fn net_bind(&mut self, addr: SocketAddr) -> io::Result<SocketAddr> {
        let mut addr = addr;
        if addr.port() == 0 {
            addr.set_port(self.net.next_port);
            self.net.next_port += 1;
        }
        // a wildcard bind conflicts with any bind on the same port and family, and vice versa
        let conflict = self.net.listeners.keys().any(|k| {
            k.port() == addr.port()
                && k.is_ipv4() == addr.is_ipv4()
                && (k.ip() == addr.ip() || k.ip().is_unspecified() || addr.ip().is_unspecified())
        });
        if conflict {
            return Err(err(ErrorKind::AddrInUse, "address in use (simulated)"));
        }
        let res = self.alloc_res();
        self.net.listeners.insert(addr, Listener { res, backlog: VecDeque::new() });
        Ok(addr)
    }

    pub(crate) fn net_unbind(&mut self, addr: SocketAddr) {
        if let Some(l) = self.net.listeners.remove(&addr) {
            for ep in l.backlog {
                // never-accepted connections are reset
                self.net.eps[ep].closed = true;
                let peer = ep ^ 1;
                self.net_push(peer, Item::Rst, false);
            }
        }
    }

    pub(crate) fn net_accept(&mut self, addr: SocketAddr) -> Result<usize, Blocked> {
        match self.net.listeners.get_mut(&addr) {
            None => Err(Blocked::Err(err(ErrorKind::InvalidInput, "listener closed"))),
            Some(l) => match l.backlog.pop_front() {
                Some(ep) => Ok(ep),
                None => Err(Blocked::Wait(l.res)),
            },
        }
    }

    /// Returns Ok(ep), or Err(None) when the SYN is black-holed (caller waits for its timeout).
    pub(crate) fn net_connect(
        &mut self,
        src: Option<SocketAddr>,
        dst: SocketAddr,
    ) -> Result<usize, Option<io::Error>> {
        let mut target = dst;
        if dst.ip().is_unspecified() {
            if self.net.cfg.strict_unspecified {
                self.count("net.connect_unspecified_strict", 1);
                return Err(Some(err(ErrorKind::AddrNotAvailable, "cannot connect to unspecified address")));
            }
            target.set_ip(match dst.ip() {
                IpAddr::V4(_) => IpAddr::V4(Ipv4Addr::LOCALHOST),
                IpAddr::V6(_) => IpAddr::V6(Ipv6Addr::LOCALHOST),
            });
        }
        if self.net.blackholes.contains(&target) {
            self.count("net.connect_blackholed", 1);
            return Err(None);
        }
        let mut mapped = false;
        let key = match self.net.find_listener(target) {
            Some(k) => k,
            None => {
                // dual stack: an IPv4 destination with no IPv4 listener reaches a listener on [::]
                let v6any = SocketAddr::new(IpAddr::V6(Ipv6Addr::UNSPECIFIED), target.port());
                if self.net.cfg.dual_stack && target.is_ipv4() && self.net.listeners.contains_key(&v6any) {
                    mapped = true;
                    self.count("net.connect_v4_to_dual_stack_listener", 1);
                    v6any
                } else {
                    self.count("net.connect_refused", 1);
                    return Err(Some(err(ErrorKind::ConnectionRefused, "connection refused (simulated)")));
                }
            }
        };
        let local = match src {
            Some(mut s) => {
                if s.port() == 0 {
                    s.set_port(self.net.next_port);
                    self.net.next_port += 1;
                }
                s
            }
            None => {
                let ip = match target.ip() {
                    IpAddr::V4(_) => IpAddr::V4(Ipv4Addr::LOCALHOST),
                    IpAddr::V6(_) => IpAddr::V6(Ipv6Addr::LOCALHOST),
                };
                let p = self.net.next_port;
                self.net.next_port += 1;
                SocketAddr::new(ip, p)
            }
        };
        let cap = self.net.cfg.rx_capacity;
        let mk = |st: &mut State, local, peer| Ep {
            local,
            peer,
            rx: VecDeque::new(),
            inflight: VecDeque::new(),
            inflight_bytes: 0,
            last_at: 0,
            fin_rcvd: false,
            rst_rcvd: false,
            closed: false,
            wr_shut: false,
            rd_shut: false,
            read_timeout: None,
            write_timeout: None,
            nonblocking: false,
            rres: st.alloc_res(),
            wres: st.alloc_res(),
            seg: None,
            cap,
            eintr_left: 3,
            handles: 1,
            silent: false,
            delivered_total: 0,
        };
        // endpoints are allocated in pairs: client = 2k, server = 2k+1
        let c = mk(self, local, target);
        // (on a dual-stack listener the server side sees both addresses in their IPv4-mapped form)
        let map = |a: SocketAddr| match a.ip() {
            IpAddr::V4(v4) if mapped => SocketAddr::new(IpAddr::V6(v4.to_ipv6_mapped()), a.port()),
            _ => a,
        };
        let s = mk(self, map(target), map(local));
        let ci = self.net.eps.len();
        self.net.eps.push(c);
        self.net.eps.push(s);
        let l = self.net.listeners.get_mut(&key).unwrap();
        l.backlog.push_back(ci + 1);
        let res = l.res;
        self.wake(res);
        self.count("net.connect_ok", 1);
        Ok(ci)
    }

    pub(crate) fn net_read(&mut self, ep: usize, buf: &mut [u8]) -> Result<usize, Blocked> {
        let short = self.net.cfg.short_read_permille;
        let eintr = self.net.cfg.eintr_permille;
        if eintr > 0 && !self.net.eps[ep].nonblocking && self.net.eps[ep].eintr_left > 0 && self.frng.below(1000) < eintr as u64 {
            self.net.eps[ep].eintr_left -= 1;
            self.count("net.eintr_read", 1);
            return Err(Blocked::Err(err(ErrorKind::Interrupted, "interrupted (simulated)")));
        }
        let e = &self.net.eps[ep];
        if buf.is_empty() {
            return Ok(0);
        }
        if !e.rx.is_empty() {
            let mut n = buf.len().min(e.rx.len());
            if short > 0 && n > 1 && self.frng.below(1000) < short as u64 {
                n = 1 + self.frng.below(n as u64 - 1) as usize;
                self.count("net.short_read", 1);
            }
            let e = &mut self.net.eps[ep];
            for b in buf.iter_mut().take(n) {
                *b = e.rx.pop_front().unwrap();
            }
            let w = self.net.eps[ep ^ 1].wres;
            self.wake(w);
            return Ok(n);
        }
        if e.rst_rcvd {
            return Err(Blocked::Err(err(ErrorKind::ConnectionReset, "connection reset (simulated)")));
        }
        if e.fin_rcvd || e.rd_shut || e.closed {
            return Ok(0);
        }
        if e.nonblocking {
            return Err(Blocked::Err(err(ErrorKind::WouldBlock, "would block (simulated)")));
        }
        Err(Blocked::Wait(e.rres))
    }

    pub(crate) fn net_write(&mut self, ep: usize, buf: &[u8]) -> Result<usize, Blocked> {
        let eintr = self.net.cfg.eintr_permille;
        if eintr > 0 && !self.net.eps[ep].nonblocking && self.net.eps[ep].eintr_left > 0 && self.frng.below(1000) < eintr as u64 {
            self.net.eps[ep].eintr_left -= 1;
            self.count("net.eintr_write", 1);
            return Err(Blocked::Err(err(ErrorKind::Interrupted, "interrupted (simulated)")));
        }
        let peer = ep ^ 1;
        let e = &self.net.eps[ep];
        let (e_nonblocking, e_wres, e_seg) = (e.nonblocking, e.wres, e.seg.clone());
        if e.wr_shut || e.closed {
            return Err(Blocked::Err(err(ErrorKind::BrokenPipe, "write after shutdown (simulated)")));
        }
        if e.rst_rcvd {
            return Err(Blocked::Err(err(ErrorKind::ConnectionReset, "connection reset (simulated)")));
        }
        if buf.is_empty() {
            return Ok(0);
        }
        if e.silent {
            return Ok(buf.len());
        }
        let p = &self.net.eps[peer];
        if p.silent {
            // partitioned peer: bytes vanish
            return Ok(buf.len());
        }
        if p.closed || p.rd_shut {
            self.count("net.write_to_closed_peer", 1);
            return Err(Blocked::Err(err(ErrorKind::BrokenPipe, "peer closed (simulated)")));
        }
        let used = p.rx.len() + p.inflight_bytes;
        let pcap = p.cap;
        if used >= pcap {
            self.count("net.window_full", 1);
            if e_nonblocking {
                return Err(Blocked::Err(err(ErrorKind::WouldBlock, "would block (simulated)")));
            }
            return Err(Blocked::Wait(e_wres));
        }
        let mut n = buf.len().min(pcap - used);
        let shortw = self.net.cfg.short_write_permille;
        if shortw > 0 && n > 1 && self.frng.below(1000) < shortw as u64 {
            n = 1 + self.frng.below(n as u64 - 1) as usize;
            self.count("net.short_write", 1);
        }
        let seg = e_seg.unwrap_or_else(|| self.net.cfg.default_seg.clone());
        let data = &buf[..n];
        let mut cuts: Vec<usize> = match seg {
            Seg::Whole => vec![],
            Seg::OneByte => (1..n).collect(),
            Seg::Fixed(k) => {
                let k = k.max(1);
                (1..n).filter(|i| i % k == 0).collect()
            }
            Seg::Random(m) => {
                let mut c = BTreeSet::new();
                if n > 1 {
                    let k = self.frng.below(m as u64 + 1);
                    for _ in 0..k {
                        c.insert(1 + self.frng.below(n as u64 - 1) as usize);
                    }
                }
                c.into_iter().collect()
            }
        };
        cuts.push(n);
        let mut start = 0;
        let mut first = true;
        let pieces = cuts.len();
        for c in cuts {
            let piece = data[start..c].to_vec();
            start = c;
            self.net_push(peer, Item::Data(piece), !first);
            first = false;
        }
        if pieces > 1 {
            self.count("net.segmented_write", 1);
        }
        Ok(n)
    }

    /// `how`: shutdown of the local endpoint.
    pub(crate) fn net_shutdown(&mut self, ep: usize, how: Shutdown) {
        let peer = ep ^ 1;
        let (rd, wr) = match how {
            Shutdown::Read => (true, false),
            Shutdown::Write => (false, true),
            Shutdown::Both => (true, true),
        };
        if wr && !self.net.eps[ep].wr_shut {
            self.net.eps[ep].wr_shut = true;
            if !self.net.eps[ep].silent {
                self.net_push(peer, Item::Fin, false);
            }
        }
        if rd {
            self.net.eps[ep].rd_shut = true;
            self.net.eps[ep].rx.clear();
            let w = self.net.eps[peer].wres;
            self.wake(w);
        }
        let r = self.net.eps[ep].rres;
        self.wake(r);
    }

    pub(crate) fn net_close(&mut self, ep: usize) {
        let e = &mut self.net.eps[ep];
        if e.handles > 1 {
            e.handles -= 1;
            return;
        }
        e.handles = 0;
        if e.closed {
            return;
        }
        self.net_shutdown(ep, Shutdown::Both);
        self.net.eps[ep].closed = true;
    }

    /// Abortive close: the peer sees ConnectionReset after the data already in flight.
    pub(crate) fn net_reset(&mut self, ep: usize) {
        let peer = ep ^ 1;
        if !self.net.eps[ep].closed {
            self.net.eps[ep].closed = true;
            self.net.eps[ep].wr_shut = true;
            self.net.eps[ep].rd_shut = true;
            self.net_push(peer, Item::Rst, false);
            let w = self.net.eps[peer].wres;
            self.wake(w);
            self.count("net.rst_sent", 1);
        }
    }
}

// ---------------------------------------------------------------- handles

pub struct TcpListener {
    inner: Arc<sim::Inner>,
    addr: SocketAddr,
}

pub struct TcpStream {
    inner: Arc<sim::Inner>,
    ep: usize,
}

fn need_sim() -> io::Result<sim::Ctx> {
    sim::ctx().ok_or_else(|| err(ErrorKind::Unsupported, "humsim::net used outside a simulation"))
}

fn first_addr<A: ToSocketAddrs>(a: A) -> io::Result<SocketAddr> {
    a.to_socket_addrs()?.next().ok_or_else(|| err(ErrorKind::InvalidInput, "no address"))
}

impl TcpListener {
    pub fn bind<A: ToSocketAddrs>(addr: A) -> io::Result<TcpListener> {
        let ctx = need_sim()?;
        let addr = first_addr(addr)?;
        sim::yield_now("net.bind");
        let bound = ctx.inner.lock().net_bind(addr)?;
        Ok(TcpListener { inner: ctx.inner.clone(), addr: bound })
    }

    pub fn accept(&self) -> io::Result<(TcpStream, SocketAddr)> {
        sim::yield_now("net.accept");
        loop {
            let r = {
                let mut st = self.inner.lock();
                st.net_accept(self.addr)
            };
            match r {
                Ok(ep) => {
                    let peer = self.inner.lock().net.eps[ep].peer;
                    return Ok((TcpStream { inner: self.inner.clone(), ep }, peer));
                }
                Err(Blocked::Err(e)) => return Err(e),
                Err(Blocked::Wait(res)) => {
                    sim::block_on(res, None, "net.accept(wait)");
                }
            }
        }
    }

    pub fn incoming(&self) -> Incoming<'_> {
        Incoming { l: self }
    }

    pub fn local_addr(&self) -> io::Result<SocketAddr> {
        Ok(self.addr)
    }
}

impl Drop for TcpListener {
    fn drop(&mut self) {
        self.inner.lock().net_unbind(self.addr);
    }
}

pub struct Incoming<'a> {
    l: &'a TcpListener,
}

impl Iterator for Incoming<'_> {
    type Item = io::Result<TcpStream>;
    fn next(&mut self) -> Option<io::Result<TcpStream>> {
        Some(self.l.accept().map(|p| p.0))
    }
}

impl TcpStream {
    pub fn connect<A: ToSocketAddrs>(addr: A) -> io::Result<TcpStream> {
        let dst = first_addr(addr)?;
        Self::connect_impl(None, dst, None)
    }

    pub fn connect_timeout(addr: &SocketAddr, timeout: Duration) -> io::Result<TcpStream> {
        Self::connect_impl(None, *addr, Some(timeout))
    }

    /// Harness extension: connect from a chosen source address (port 0 = ephemeral).
    pub fn connect_from(src: SocketAddr, dst: SocketAddr) -> io::Result<TcpStream> {
        Self::connect_impl(Some(src), dst, None)
    }

    fn connect_impl(src: Option<SocketAddr>, dst: SocketAddr, timeout: Option<Duration>) -> io::Result<TcpStream> {
        let ctx = need_sim()?;
        sim::yield_now("net.connect");
        let r = ctx.inner.lock().net_connect(src, dst);
        match r {
            Ok(ep) => Ok(TcpStream { inner: ctx.inner.clone(), ep }),
            Err(Some(e)) => Err(e),
            Err(None) => {
                // black-holed SYN: nothing ever answers
                match timeout {
                    Some(t) => {
                        sim::sleep_ns(t.as_nanos() as u64);
                        Err(err(ErrorKind::TimedOut, "connection timed out (simulated)"))
                    }
                    None => {
                        // Linux gives up after ~127 s of SYN retries
                        sim::sleep_ns(127_000_000_000);
                        Err(err(ErrorKind::TimedOut, "connection timed out (simulated)"))
                    }
                }
            }
        }
    }

    fn read_impl(&self, buf: &mut [u8]) -> io::Result<usize> {
        sim::yield_now("net.read");
        let deadline = {
            let st = self.inner.lock();
            st.net.eps[self.ep].read_timeout.map(|t| st.now + t)
        };
        loop {
            let r = self.inner.lock().net_read(self.ep, buf);
            match r {
                Ok(n) => return Ok(n),
                Err(Blocked::Err(e)) => return Err(e),
                Err(Blocked::Wait(res)) => {
                    if let Some(d) = deadline {
                        if sim::now_ns() >= d {
                            sim::count("net.read_timeout", 1);
                            return Err(err(ErrorKind::WouldBlock, "read timed out (simulated)"));
                        }
                    }
                    sim::block_on(res, deadline, "net.read(wait)");
                }
            }
        }
    }

    fn write_impl(&self, buf: &[u8]) -> io::Result<usize> {
        sim::yield_now("net.write");
        let deadline = {
            let st = self.inner.lock();
            st.net.eps[self.ep].write_timeout.map(|t| st.now + t)
        };
        loop {
            let r = self.inner.lock().net_write(self.ep, buf);
            match r {
                Ok(n) => return Ok(n),
                Err(Blocked::Err(e)) => return Err(e),
                Err(Blocked::Wait(res)) => {
                    if let Some(d) = deadline {
                        if sim::now_ns() >= d {
                            sim::count("net.write_timeout", 1);
                            return Err(err(ErrorKind::WouldBlock, "write timed out (simulated)"));
                        }
                    }
                    sim::block_on(res, deadline, "net.write(wait)");
                }
            }
        }
    }

    pub fn peer_addr(&self) -> io::Result<SocketAddr> {
        Ok(self.inner.lock().net.eps[self.ep].peer)
    }
    pub fn local_addr(&self) -> io::Result<SocketAddr> {
        Ok(self.inner.lock().net.eps[self.ep].local)
    }
    pub fn shutdown(&self, how: Shutdown) -> io::Result<()> {
        sim::yield_now("net.shutdown");
        self.inner.lock().net_shutdown(self.ep, how);
        Ok(())
    }
    pub fn set_read_timeout(&self, t: Option<Duration>) -> io::Result<()> {
        if t == Some(Duration::ZERO) {
            return Err(err(ErrorKind::InvalidInput, "zero timeout"));
        }
        self.inner.lock().net.eps[self.ep].read_timeout = t.map(|d| d.as_nanos() as u64);
        Ok(())
    }
    pub fn set_write_timeout(&self, t: Option<Duration>) -> io::Result<()> {
        if t == Some(Duration::ZERO) {
            return Err(err(ErrorKind::InvalidInput, "zero timeout"));
        }
        self.inner.lock().net.eps[self.ep].write_timeout = t.map(|d| d.as_nanos() as u64);
        Ok(())
    }
    pub fn set_nonblocking(&self, nb: bool) -> io::Result<()> {
        self.inner.lock().net.eps[self.ep].nonblocking = nb;
        Ok(())
    }
    pub fn set_nodelay(&self, _: bool) -> io::Result<()> {
        Ok(())
    }
    pub fn try_clone(&self) -> io::Result<TcpStream> {
        self.inner.lock().net.eps[self.ep].handles += 1;
        Ok(TcpStream { inner: self.inner.clone(), ep: self.ep })
    }

    // ---- harness extensions -------------------------------------------------

    /// Segmentation policy for this endpoint's writes.
    pub fn sim_set_seg(&self, seg: Seg) {
        self.inner.lock().net.eps[self.ep].seg = Some(seg);
    }
    /// Receive window of this endpoint (tiny values make the peer's writes block).
    pub fn sim_set_window(&self, cap: usize) {
        self.inner.lock().net.eps[self.ep].cap = cap.max(1);
    }
    /// Abortive close (RST).
    pub fn sim_reset(&self) {
        sim::yield_now("net.reset");
        self.inner.lock().net_reset(self.ep);
    }
    /// Partition this endpoint: nothing it sends arrives (no FIN either), nothing sent to it errors.
    pub fn sim_go_silent(&self) {
        let mut st = self.inner.lock();
        st.net.eps[self.ep].silent = true;
        st.count("net.silent_peer", 1);
    }
    /// Bytes delivered to this endpoint so far (read or not).
    pub fn sim_delivered(&self) -> u64 {
        self.inner.lock().net.eps[self.ep].delivered_total
    }
    /// Copy of the bytes delivered and not yet read.
    pub fn sim_peek(&self) -> Vec<u8> {
        self.inner.lock().net.eps[self.ep].rx.iter().copied().collect()
    }
    /// Bytes delivered and not yet read.
    pub fn sim_unread(&self) -> usize {
        self.inner.lock().net.eps[self.ep].rx.len()
    }
}

/// Harness extension: SYNs to this address are silently dropped.
pub fn sim_blackhole(addr: SocketAddr) {
    if let Some(ctx) = sim::ctx() {
        ctx.inner.lock().net.blackholes.insert(addr);
    }
}

impl Drop for TcpStream {
    fn drop(&mut self) {
        self.inner.lock().net_close(self.ep);
    }
}

impl Read for TcpStream {
    fn read(&mut self, buf: &mut [u8]) -> io::Result<usize> {
        self.read_impl(buf)
    }
}
impl Write for TcpStream {
    fn write(&mut self, buf: &[u8]) -> io::Result<usize> {
        self.write_impl(buf)
    }
    fn flush(&mut self) -> io::Result<()> {
        Ok(())
    }
}
impl Read for &TcpStream {
    fn read(&mut self, buf: &mut [u8]) -> io::Result<usize> {
        self.read_impl(buf)
    }
}
impl Write for &TcpStream {
    fn write(&mut self, buf: &[u8]) -> io::Result<usize> {
        self.write_impl(buf)
    }
    fn flush(&mut self) -> io::Result<()> {
        Ok(())
    }
}

impl std::fmt::Debug for TcpStream {
    fn fmt(&self, f: &mut std::fmt::Formatter<'_>) -> std::fmt::Result {
        write!(f, "SimTcpStream(ep {})", self.ep)
    }
}
impl std::fmt::Debug for TcpListener {
    fn fmt(&self, f: &mut std::fmt::Formatter<'_>) -> std::fmt::Result {
        write!(f, "SimTcpListener({})", self.addr)
    }
}
