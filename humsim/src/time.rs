//! Virtual clocks.  `Instant` is the virtual monotonic clock inside a simulation and
//! std's outside; `SystemTime::now()` / `UNIX_EPOCH.elapsed()` read the virtual wall clock.

use crate::sim;

use std::ops::{Add, Sub};
pub use std::time::Duration;

#[derive(Clone, Copy, Debug, PartialEq, Eq, PartialOrd, Ord)]
pub enum Instant {
    Real(std::time::Instant),
    Virt(u64),
}

impl Instant {
    pub fn now() -> Self {
        if sim::in_sim() {
            Instant::Virt(sim::now_ns())
        } else {
            Instant::Real(std::time::Instant::now())
        }
    }
    pub fn elapsed(&self) -> Duration {
        Instant::now().duration_since(*self)
    }
    pub fn duration_since(&self, earlier: Instant) -> Duration {
        match (self, earlier) {
            (Instant::Real(a), Instant::Real(b)) => a.duration_since(b),
            (Instant::Virt(a), Instant::Virt(b)) => Duration::from_nanos(a.saturating_sub(b)),
            _ => Duration::ZERO,
        }
    }
}

impl Add<Duration> for Instant {
    type Output = Instant;
    fn add(self, d: Duration) -> Instant {
        match self {
            Instant::Real(a) => Instant::Real(a + d),
            Instant::Virt(a) => Instant::Virt(a + d.as_nanos() as u64),
        }
    }
}

impl Sub<Instant> for Instant {
    type Output = Duration;
    fn sub(self, o: Instant) -> Duration {
        self.duration_since(o)
    }
}

/// Stand-in for the *name* `std::time::SystemTime` at call sites that only use
/// `SystemTime::now()` and `SystemTime::UNIX_EPOCH`; values are std's `SystemTime`.
pub struct SystemTime;

impl SystemTime {
    pub const UNIX_EPOCH: std::time::SystemTime = std::time::UNIX_EPOCH;
    #[allow(clippy::new_ret_no_self)]
    pub fn now() -> std::time::SystemTime {
        #[cfg(feature = "tokio")]
        if let Some(ns) = crate::tokio_net::wall_ns() {
            return std::time::UNIX_EPOCH + Duration::new((ns / 1_000_000_000) as u64, (ns % 1_000_000_000) as u32);
        }
        match sim::wall_ns() {
            Some(ns) => {
                std::time::UNIX_EPOCH
                    + Duration::new((ns / 1_000_000_000) as u64, (ns % 1_000_000_000) as u32)
            }
            None => std::time::SystemTime::now(),
        }
    }
}

/// Stand-in for the *value* `std::time::UNIX_EPOCH` at call sites that only call `.elapsed()`.
pub struct UnixEpoch;
pub const UNIX_EPOCH: UnixEpoch = UnixEpoch;

impl UnixEpoch {
    pub fn elapsed(&self) -> Result<Duration, std::time::SystemTimeError> {
        SystemTime::now().duration_since(std::time::UNIX_EPOCH)
    }
}
