//! humsim — deterministic simulation of threads, time and TCP for std-only code.
//!
//! Real OS threads, one baton: see `sim`.  The other modules are API-compatible subsets
//! of `std::thread`, `std::sync`, `std::time` and `std::net` that turn every blocking
//! operation into a scheduler decision and read the virtual clock.

pub mod collections;
pub mod net;
pub mod rng;
pub mod sim;
pub mod sync;
pub mod thread;
pub mod time;

#[cfg(feature = "rand")]
pub mod rand;

#[cfg(feature = "tokio")]
pub mod tokio_net;
