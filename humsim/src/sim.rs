//! The scheduler: real OS threads, one baton.
//!
//! Every simulated thread is a real `std::thread` that only runs while it holds the
//! baton.  It hands the baton back at every intercepted operation (a *decision point*);
//! the thread that reaches the decision point runs the scheduling logic itself, under the
//! one `State` lock, picks the next thread with the run's PRNG, wakes it and parks.
//!
//! A run ends when the driver returns (all other threads are then *abandoned*: never
//! resumed, parked on their private condvar until the process exits), when nothing can
//! run and no timer is pending (stuck), or at the decision cap.

use crate::net::Net;
use crate::rng::Rng;

use std::cell::RefCell;
use std::cmp::Ordering as CmpOrdering;
use std::collections::{BTreeMap, BinaryHeap};
use std::sync::atomic::{AtomicU64, Ordering};
use std::sync::{Arc, Condvar, Mutex, MutexGuard};

pub type Res = u64;

/// Threads spawned by simulations in this process that never finished (abandoned).
pub static LEAKED_THREADS: AtomicU64 = AtomicU64::new(0);

#[derive(Clone, Debug, PartialEq, Eq)]
pub enum Strategy {
    /// uniform over runnable threads
    Random,
    /// keep the current thread with probability `permille`/1000
    Sticky(u32),
    /// random priorities with `depth` priority-change points over `horizon` decisions
    Pct { depth: u32, horizon: u64 },
    /// round robin
    RoundRobin,
}

impl Strategy {
    pub fn parse(s: &str) -> Option<Strategy> {
        let parts: Vec<&str> = s.split(':').collect();
        match parts[0] {
            "random" => Some(Strategy::Random),
            "rr" => Some(Strategy::RoundRobin),
            "sticky" => Some(Strategy::Sticky(parts.get(1)?.parse().ok()?)),
            "pct" => Some(Strategy::Pct {
                depth: parts.get(1)?.parse().ok()?,
                horizon: parts.get(2)?.parse().ok()?,
            }),
            _ => None,
        }
    }
    pub fn render(&self) -> String {
        match self {
            Strategy::Random => "random".into(),
            Strategy::RoundRobin => "rr".into(),
            Strategy::Sticky(p) => format!("sticky:{}", p),
            Strategy::Pct { depth, horizon } => format!("pct:{}:{}", depth, horizon),
        }
    }
}

#[derive(Clone, Debug)]
pub struct Config {
    /// seed of the schedule stream (who runs next, cpu ticks) and of the network fault stream
    pub seed: u64,
    pub strategy: Strategy,
    pub max_decisions: u64,
    /// upper bound of the virtual "cpu cost" added at each decision point
    pub cpu_tick_max_ns: u64,
    /// SystemTime::now() at virtual time 0, seconds since the epoch
    pub epoch_secs: u64,
    /// keep a textual trace (for determinism diffs and debugging)
    pub trace: bool,
    pub net: crate::net::NetConfig,
}

impl Default for Config {
    fn default() -> Self {
        Config {
            seed: 1,
            strategy: Strategy::Random,
            max_decisions: 200_000,
            cpu_tick_max_ns: 20_000,
            epoch_secs: 1_700_000_000,
            trace: false,
            net: Default::default(),
        }
    }
}

#[derive(Clone, Debug, PartialEq, Eq)]
pub enum EndStatus {
    /// the driver returned
    Completed,
    /// no runnable thread, no pending timer, driver not finished
    Stuck,
    /// decision cap reached
    StepCap,
    /// the driver panicked
    DriverPanicked,
}

#[derive(Clone, Debug)]
pub struct PanicRecord {
    pub thread: String,
    pub message: String,
    pub location: String,
    pub decision: u64,
}

#[derive(Clone, Debug)]
pub struct ThreadReport {
    pub index: usize,
    pub name: String,
    pub state: &'static str,
    pub op: &'static str,
}

#[derive(Clone, Debug)]
pub struct Outcome {
    pub status: EndStatus,
    pub decisions: u64,
    pub virtual_ns: u64,
    pub trace_hash: u64,
    pub panics: Vec<PanicRecord>,
    pub threads: Vec<ThreadReport>,
    pub threads_spawned: usize,
    pub counters: BTreeMap<String, u64>,
    pub trace: Vec<String>,
}

pub(crate) struct Parker {
    flag: Mutex<bool>,
    cv: Condvar,
}

impl Parker {
    fn new() -> Self {
        Parker { flag: Mutex::new(false), cv: Condvar::new() }
    }
    fn park(&self) {
        let mut g = self.flag.lock().unwrap_or_else(|e| e.into_inner());
        while !*g {
            g = self.cv.wait(g).unwrap_or_else(|e| e.into_inner());
        }
        *g = false;
    }
    fn unpark(&self) {
        *self.flag.lock().unwrap_or_else(|e| e.into_inner()) = true;
        self.cv.notify_one();
    }
}

#[derive(Clone, Copy, PartialEq, Eq, Debug)]
enum TStatus {
    Runnable,
    Blocked,
    Finished,
}

struct Slot {
    name: String,
    parker: Arc<Parker>,
    status: TStatus,
    blocked_on: Res,
    deadline_gen: u64,
    timed_out: bool,
    op: &'static str,
    prio: u64,
    /// blocked until every other thread is blocked/finished and no timer is pending
    wants_quiescence: bool,
}

#[derive(Debug)]
pub(crate) enum TimerKind {
    Deadline { tid: usize, gen: u64 },
    NetDeliver { ep: usize },
}

struct Timer {
    at: u64,
    seq: u64,
    kind: TimerKind,
}

impl PartialEq for Timer {
    fn eq(&self, o: &Self) -> bool {
        self.at == o.at && self.seq == o.seq
    }
}
impl Eq for Timer {}
impl PartialOrd for Timer {
    fn partial_cmp(&self, o: &Self) -> Option<CmpOrdering> {
        Some(self.cmp(o))
    }
}
impl Ord for Timer {
    fn cmp(&self, o: &Self) -> CmpOrdering {
        // BinaryHeap is a max-heap: reverse so the earliest (at, seq) pops first
        (o.at, o.seq).cmp(&(self.at, self.seq))
    }
}

pub(crate) struct State {
    pub cfg: Config,
    rng: Rng,
    pub frng: Rng,
    /// the "operating-system randomness" of the simulated process (tokens, salts, uids): its own
    /// stream, so that drawing from it perturbs neither the schedule nor the faults
    pub entropy: Rng,
    pub now: u64,
    threads: Vec<Slot>,
    current: usize,
    timers: BinaryHeap<Timer>,
    timer_seq: u64,
    pub decisions: u64,
    hash: u64,
    trace: Vec<String>,
    next_res: Res,
    finished: Option<EndStatus>,
    panics: Vec<PanicRecord>,
    pub net: Net,
    pct_points: Vec<u64>,
    pct_low: u64,
    counters: BTreeMap<&'static str, u64>,
    /// extra offset of the wall clock (clock-jump faults), nanoseconds
    pub wall_offset_ns: u64,
}

pub(crate) struct Inner {
    pub state: Mutex<State>,
    done: Mutex<bool>,
    done_cv: Condvar,
}

impl Inner {
    pub(crate) fn lock(&self) -> MutexGuard<'_, State> {
        self.state.lock().unwrap_or_else(|e| e.into_inner())
    }
}

#[derive(Clone)]
pub(crate) struct Ctx {
    pub inner: Arc<Inner>,
    pub tid: usize,
}

thread_local! {
    static CTX: RefCell<Option<Ctx>> = const { RefCell::new(None) };
}

pub(crate) fn ctx() -> Option<Ctx> {
    CTX.with(|c| c.borrow().clone())
}

/// Is the calling thread a simulated thread of a running simulation?
pub fn in_sim() -> bool {
    CTX.with(|c| c.borrow().is_some())
}

fn fnv(h: &mut u64, x: u64) {
    for b in x.to_le_bytes() {
        *h ^= b as u64;
        *h = h.wrapping_mul(0x1000_0000_01b3);
    }
}

impl State {
    pub(crate) fn alloc_res(&mut self) -> Res {
        self.next_res += 1;
        self.next_res
    }

    pub(crate) fn add_timer(&mut self, at: u64, kind: TimerKind) {
        self.timer_seq += 1;
        let seq = self.timer_seq;
        self.timers.push(Timer { at, seq, kind });
    }

    pub(crate) fn wake(&mut self, res: Res) {
        if res == 0 {
            return;
        }
        for t in self.threads.iter_mut() {
            if t.status == TStatus::Blocked && t.blocked_on == res {
                t.status = TStatus::Runnable;
                t.blocked_on = 0;
                t.deadline_gen += 1;
            }
        }
    }

    pub(crate) fn count(&mut self, name: &'static str, n: u64) {
        *self.counters.entry(name).or_insert(0) += n;
    }

    fn fire(&mut self, t: Timer) {
        match t.kind {
            TimerKind::Deadline { tid, gen } => {
                let s = &mut self.threads[tid];
                if s.status == TStatus::Blocked && s.deadline_gen == gen {
                    s.status = TStatus::Runnable;
                    s.blocked_on = 0;
                    s.timed_out = true;
                    s.deadline_gen += 1;
                }
            }
            TimerKind::NetDeliver { ep } => {
                let now = self.now;
                if let Some(res) = self.net.deliver(ep, now) {
                    self.wake(res);
                }
            }
        }
    }

    fn fire_due(&mut self) {
        while let Some(t) = self.timers.peek() {
            if t.at <= self.now {
                let t = self.timers.pop().unwrap();
                self.fire(t);
            } else {
                break;
            }
        }
    }

    /// Choose the next thread to run, advancing virtual time when nothing is runnable.
    fn pick_next(&mut self) -> Result<usize, EndStatus> {
        loop {
            self.fire_due();
            let runnable: Vec<usize> = self
                .threads
                .iter()
                .enumerate()
                .filter(|(_, t)| t.status == TStatus::Runnable)
                .map(|(i, _)| i)
                .collect();
            if runnable.is_empty() {
                // a thread waiting for quiescence wakes when nothing else can happen
                // (only stale deadline timers or its own deadline remain)
                if let Some(w) = self.threads.iter().position(|t| t.status == TStatus::Blocked && t.wants_quiescence) {
                    let live_timer = self.timers.iter().any(|t| match t.kind {
                        TimerKind::Deadline { tid, gen } => {
                            tid != w && self.threads[tid].status == TStatus::Blocked && self.threads[tid].deadline_gen == gen
                        }
                        TimerKind::NetDeliver { .. } => true,
                    });
                    if !live_timer {
                        let s = &mut self.threads[w];
                        s.status = TStatus::Runnable;
                        s.blocked_on = 0;
                        s.timed_out = false;
                        s.wants_quiescence = false;
                        s.deadline_gen += 1;
                        continue;
                    }
                }
                match self.timers.pop() {
                    None => return Err(EndStatus::Stuck),
                    Some(t) => {
                        if t.at > self.now {
                            self.now = t.at;
                        }
                        self.fire(t);
                        continue;
                    }
                }
            }
            if self.decisions >= self.cfg.max_decisions {
                return Err(EndStatus::StepCap);
            }
            let cur = self.current;
            let choice = match self.cfg.strategy.clone() {
                Strategy::Random => runnable[self.rng.usize_below(runnable.len())],
                Strategy::Sticky(p) => {
                    if runnable.contains(&cur) && self.rng.below(1000) < p as u64 {
                        cur
                    } else {
                        runnable[self.rng.usize_below(runnable.len())]
                    }
                }
                Strategy::RoundRobin => {
                    *runnable.iter().find(|&&i| i > cur).unwrap_or(&runnable[0])
                }
                Strategy::Pct { .. } => {
                    if self.pct_points.contains(&self.decisions) && runnable.contains(&cur) {
                        self.pct_low = self.pct_low.saturating_sub(1);
                        self.threads[cur].prio = self.pct_low;
                    }
                    *runnable
                        .iter()
                        .max_by_key(|&&i| (self.threads[i].prio, usize::MAX - i))
                        .unwrap()
                }
            };
            self.decisions += 1;
            let tick = self.rng.below(self.cfg.cpu_tick_max_ns + 1);
            self.now += tick;
            let (d, n) = (self.decisions, self.now);
            fnv(&mut self.hash, d);
            fnv(&mut self.hash, choice as u64);
            fnv(&mut self.hash, n);
            if self.cfg.trace {
                let line = format!(
                    "{} t={} -> #{} {} after #{} {}",
                    d, n, choice, self.threads[choice].name, cur, self.threads[cur].op
                );
                self.trace.push(line);
            }
            self.current = choice;
            return Ok(choice);
        }
    }

    fn report(&self) -> Vec<ThreadReport> {
        self.threads
            .iter()
            .enumerate()
            .map(|(i, t)| ThreadReport {
                index: i,
                name: t.name.clone(),
                state: match t.status {
                    TStatus::Runnable => "runnable",
                    TStatus::Blocked => "blocked",
                    TStatus::Finished => "finished",
                },
                op: t.op,
            })
            .collect()
    }
}

/// Hand the baton on.  `me`'s status has already been set by the caller.
fn reschedule(ctx: &Ctx, mut st: MutexGuard<'_, State>) {
    let me = ctx.tid;
    let i_am_done = st.threads[me].status == TStatus::Finished;
    match st.pick_next() {
        Ok(n) if n == me => {}
        Ok(n) => {
            let p = st.threads[n].parker.clone();
            let mine = st.threads[me].parker.clone();
            drop(st);
            p.unpark();
            if !i_am_done {
                mine.park();
            }
        }
        Err(status) => {
            if st.finished.is_none() {
                st.finished = Some(status);
            }
            let mine = st.threads[me].parker.clone();
            drop(st);
            signal_done(&ctx.inner);
            if !i_am_done {
                // abandoned: never resumed
                loop {
                    mine.park();
                }
            }
        }
    }
}

fn signal_done(inner: &Inner) {
    *inner.done.lock().unwrap_or_else(|e| e.into_inner()) = true;
    inner.done_cv.notify_all();
}

/// A decision point at which the calling thread stays runnable.
pub fn yield_now(op: &'static str) {
    if let Some(ctx) = ctx() {
        let mut st = ctx.inner.lock();
        st.threads[ctx.tid].op = op;
        reschedule(&ctx, st);
    }
}

/// Block the calling thread until `res` is woken or the deadline (absolute virtual ns)
/// passes.  Returns true if it timed out.  Spurious returns are allowed: callers loop.
pub(crate) fn block_on(res: Res, deadline: Option<u64>, op: &'static str) -> bool {
    let ctx = ctx().expect("block_on outside a simulation");
    let mut st = ctx.inner.lock();
    {
        let me = ctx.tid;
        let gen = {
            let s = &mut st.threads[me];
            s.status = TStatus::Blocked;
            s.blocked_on = res;
            s.timed_out = false;
            s.deadline_gen += 1;
            s.op = op;
            s.deadline_gen
        };
        if let Some(at) = deadline {
            st.add_timer(at, TimerKind::Deadline { tid: me, gen });
        }
    }
    reschedule(&ctx, st);
    let st = ctx.inner.lock();
    st.threads[ctx.tid].timed_out
}

pub(crate) fn wake(res: Res) {
    if let Some(ctx) = ctx() {
        ctx.inner.lock().wake(res);
    }
}

pub(crate) fn alloc_res() -> Res {
    match ctx() {
        Some(ctx) => ctx.inner.lock().alloc_res(),
        None => 0,
    }
}

/// Virtual monotonic time in nanoseconds (0 outside a simulation).
pub fn now_ns() -> u64 {
    match ctx() {
        Some(ctx) => ctx.inner.lock().now,
        None => 0,
    }
}

/// The simulator's global decision index: a total order for history events.
pub fn decision_index() -> u64 {
    match ctx() {
        Some(ctx) => ctx.inner.lock().decisions,
        None => 0,
    }
}

/// (decision index, virtual ns) in one call.
pub fn stamp() -> (u64, u64) {
    match ctx() {
        Some(ctx) => {
            let st = ctx.inner.lock();
            (st.decisions, st.now)
        }
        None => (0, 0),
    }
}

/// Virtual wall clock: nanoseconds since the Unix epoch.
pub fn wall_ns() -> Option<u128> {
    ctx().map(|ctx| {
        let st = ctx.inner.lock();
        st.cfg.epoch_secs as u128 * 1_000_000_000 + st.now as u128 + st.wall_offset_ns as u128
    })
}

/// Clock-jump fault: move the wall clock forward (the monotonic clock is unaffected).
pub fn wall_jump_ns(ns: u64) {
    if let Some(ctx) = ctx() {
        let mut st = ctx.inner.lock();
        st.wall_offset_ns += ns;
        st.count("clock_jump", 1);
    }
}

/// Advance virtual time by sleeping the calling simulated thread.
pub fn sleep_ns(ns: u64) {
    if let Some(c) = ctx() {
        let at = c.inner.lock().now + ns;
        loop {
            if block_on(0, Some(at), "sleep") {
                break;
            }
            if c.inner.lock().now >= at {
                break;
            }
        }
    }
}

/// Block the calling thread until every other simulated thread is blocked or finished
/// and no timer or network delivery is pending (the system is quiescent), or until
/// `timeout_ns` of virtual time has passed.  Returns true when quiescent.
pub fn wait_quiescent(timeout_ns: u64) -> bool {
    let c = match ctx() {
        Some(c) => c,
        None => return true,
    };
    let at = c.inner.lock().now.saturating_add(timeout_ns);
    loop {
        {
            let mut st = c.inner.lock();
            st.threads[c.tid].wants_quiescence = true;
        }
        let timed_out = block_on(0, Some(at), "wait_quiescent");
        let mut st = c.inner.lock();
        let still = st.threads[c.tid].wants_quiescence;
        st.threads[c.tid].wants_quiescence = false;
        if timed_out {
            return false;
        }
        if !still {
            return true;
        }
        if st.now >= at {
            return false;
        }
    }
}

pub fn count(name: &'static str, n: u64) {
    if let Some(ctx) = ctx() {
        ctx.inner.lock().count(name, n);
    }
}

/// Eight bytes of simulated operating-system randomness; None outside a simulation.  Not a
/// decision point.
pub fn entropy_u64() -> Option<u64> {
    ctx().map(|ctx| ctx.inner.lock().entropy.next_u64())
}

/// Draw from the fault stream (harness-side buggify decisions made inside a run).
pub fn fault_below(n: u64) -> u64 {
    match ctx() {
        Some(ctx) => ctx.inner.lock().frng.below(n),
        None => 0,
    }
}

/// Snapshot of all simulated threads (for "did every worker exit" oracles).
pub fn threads_snapshot() -> Vec<ThreadReport> {
    match ctx() {
        Some(ctx) => ctx.inner.lock().report(),
        None => Vec::new(),
    }
}

/// Record a panic (called from the process panic hook).
pub fn record_panic(message: String, location: String) {
    if let Some(ctx) = ctx() {
        let mut st = ctx.inner.lock();
        let thread = st.threads[ctx.tid].name.clone();
        let decision = st.decisions;
        st.panics.push(PanicRecord { thread, message, location, decision });
    }
}

/// Install a panic hook that records panics of simulated threads silently and prints
/// those of other threads.  Re-install before every run: the code under test may replace it.
pub fn install_panic_hook() {
    std::panic::set_hook(Box::new(|info| {
        let msg = if let Some(s) = info.payload().downcast_ref::<&str>() {
            s.to_string()
        } else if let Some(s) = info.payload().downcast_ref::<String>() {
            s.clone()
        } else {
            "<non-string panic payload>".to_string()
        };
        let loc = info
            .location()
            .map(|l| format!("{}:{}:{}", l.file(), l.line(), l.column()))
            .unwrap_or_default();
        if in_sim() {
            record_panic(msg, loc);
        } else {
            eprintln!("panic outside simulation: {} at {}", msg, loc);
        }
    }));
}

/// Register and start a new simulated thread.  Returns its index.
pub(crate) fn spawn_thread(
    name: Option<String>,
    stack: Option<usize>,
    body: Box<dyn FnOnce() + Send + 'static>,
) -> std::io::Result<usize> {
    let parent = ctx().expect("spawn_thread outside a simulation");
    let parker = Arc::new(Parker::new());
    let tid = {
        let mut st = parent.inner.lock();
        let tid = st.threads.len();
        let prio = st.rng.next_u64() | (1 << 63);
        st.threads.push(Slot {
            name: name.clone().unwrap_or_else(|| format!("<unnamed-{}>", tid)),
            parker: parker.clone(),
            status: TStatus::Runnable,
            blocked_on: 0,
            deadline_gen: 0,
            timed_out: false,
            op: "start",
            prio,
            wants_quiescence: false,
        });
        tid
    };
    let inner = parent.inner.clone();
    let mut b = std::thread::Builder::new();
    if let Some(n) = name {
        b = b.name(n);
    }
    b = b.stack_size(stack.unwrap_or(2 * 1024 * 1024));
    LEAKED_THREADS.fetch_add(1, Ordering::Relaxed);
    let res = b.spawn(move || {
        CTX.with(|c| *c.borrow_mut() = Some(Ctx { inner: inner.clone(), tid }));
        parker.park();
        let _ = std::panic::catch_unwind(std::panic::AssertUnwindSafe(body));
        // finished: hand the baton on and let the OS thread exit
        let ctx = Ctx { inner, tid };
        let mut st = ctx.inner.lock();
        st.threads[tid].status = TStatus::Finished;
        st.threads[tid].op = "finished";
        let r = thread_res(tid);
        st.wake(r);
        LEAKED_THREADS.fetch_sub(1, Ordering::Relaxed);
        reschedule(&ctx, st);
    });
    match res {
        Ok(_) => Ok(tid),
        Err(e) => {
            LEAKED_THREADS.fetch_sub(1, Ordering::Relaxed);
            let mut st = parent.inner.lock();
            st.threads[tid].status = TStatus::Finished;
            Err(e)
        }
    }
}

/// Resource id on which joiners of thread `tid` block.
pub(crate) fn thread_res(tid: usize) -> Res {
    (1u64 << 62) + tid as u64
}

pub(crate) fn thread_finished(tid: usize) -> bool {
    let ctx = ctx().expect("outside a simulation");
    let st = ctx.inner.lock();
    st.threads[tid].status == TStatus::Finished
}

/// Run `driver` as simulated thread 0 under a fresh simulation and wait for the run to end.
pub fn run<F>(cfg: Config, driver: F) -> Outcome
where
    F: FnOnce() + Send + 'static,
{
    assert!(!in_sim(), "nested simulation");
    let mut seed = cfg.seed;
    let s1 = crate::rng::splitmix(&mut seed);
    let s2 = crate::rng::splitmix(&mut seed);
    let mut rng = Rng::new(s1);
    let mut pct_points = Vec::new();
    if let Strategy::Pct { depth, horizon } = cfg.strategy {
        for _ in 0..depth {
            pct_points.push(rng.below(horizon.max(1)));
        }
    }
    let driver_parker = Arc::new(Parker::new());
    let state = State {
        net: Net::new(&cfg.net),
        cfg,
        frng: Rng::new(s2),
        entropy: Rng::new(crate::rng::mix(&[s2, 0x05_E27_0F1])),
        now: 0,
        threads: vec![Slot {
            name: "driver".into(),
            parker: driver_parker.clone(),
            status: TStatus::Runnable,
            blocked_on: 0,
            deadline_gen: 0,
            timed_out: false,
            op: "start",
            prio: rng.next_u64() | (1 << 63),
            wants_quiescence: false,
        }],
        rng,
        current: 0,
        timers: BinaryHeap::new(),
        timer_seq: 0,
        decisions: 0,
        hash: 0xcbf2_9ce4_8422_2325,
        trace: Vec::new(),
        next_res: 0,
        finished: None,
        panics: Vec::new(),
        pct_points,
        pct_low: 1 << 62,
        counters: BTreeMap::new(),
        wall_offset_ns: 0,
    };
    let inner = Arc::new(Inner { state: Mutex::new(state), done: Mutex::new(false), done_cv: Condvar::new() });
    let inner2 = inner.clone();
    LEAKED_THREADS.fetch_add(1, Ordering::Relaxed);
    std::thread::Builder::new()
        .name("driver".into())
        .stack_size(8 * 1024 * 1024)
        .spawn(move || {
            CTX.with(|c| *c.borrow_mut() = Some(Ctx { inner: inner2.clone(), tid: 0 }));
            let r = std::panic::catch_unwind(std::panic::AssertUnwindSafe(driver));
            let mut st = inner2.lock();
            st.threads[0].status = TStatus::Finished;
            st.threads[0].op = "finished";
            if st.finished.is_none() {
                st.finished =
                    Some(if r.is_ok() { EndStatus::Completed } else { EndStatus::DriverPanicked });
            }
            drop(st);
            LEAKED_THREADS.fetch_sub(1, Ordering::Relaxed);
            signal_done(&inner2);
        })
        .expect("cannot spawn driver thread");
    // wait for the end of the run
    {
        let mut d = inner.done.lock().unwrap_or_else(|e| e.into_inner());
        while !*d {
            d = inner.done_cv.wait(d).unwrap_or_else(|e| e.into_inner());
        }
    }
    let st = inner.lock();
    Outcome {
        status: st.finished.clone().unwrap_or(EndStatus::Stuck),
        decisions: st.decisions,
        virtual_ns: st.now,
        trace_hash: st.hash,
        panics: st.panics.clone(),
        threads: st.report(),
        threads_spawned: st.threads.len(),
        counters: st.counters.iter().map(|(k, v)| (k.to_string(), *v)).collect(),
        trace: st.trace.clone(),
    }
}
