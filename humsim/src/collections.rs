//! A `HashMap` whose iteration order is a function of the run rather than of `RandomState`, for
//! the one map in Humphrey whose order is observable: the hasher key is drawn from the run's
//! entropy stream when the map is created inside a simulation (so different runs iterate in
//! different orders, as different processes do with `RandomState`) and is fixed outside one.

use std::hash::{BuildHasher, Hasher};
use std::ops::{Deref, DerefMut};

#[derive(Clone, Default)]
pub struct FixedState(u64);

pub struct Fnv(u64);

impl Hasher for Fnv {
    fn finish(&self) -> u64 {
        // final avalanche so bucket order is not trivially the insertion order
        let mut z = self.0;
        z = (z ^ (z >> 30)).wrapping_mul(0xBF58_476D_1CE4_E5B9);
        z = (z ^ (z >> 27)).wrapping_mul(0x94D0_49BB_1331_11EB);
        z ^ (z >> 31)
    }
    fn write(&mut self, bytes: &[u8]) {
        for b in bytes {
            self.0 ^= *b as u64;
            self.0 = self.0.wrapping_mul(0x1000_0000_01b3);
        }
    }
}

impl BuildHasher for FixedState {
    type Hasher = Fnv;
    fn build_hasher(&self) -> Fnv {
        Fnv(0xcbf2_9ce4_8422_2325 ^ self.0)
    }
}

pub struct HashMap<K, V>(std::collections::HashMap<K, V, FixedState>);

impl<K, V> HashMap<K, V> {
    pub fn new() -> Self {
        HashMap(std::collections::HashMap::with_hasher(FixedState(crate::sim::entropy_u64().unwrap_or(0))))
    }
}

impl<K, V> Default for HashMap<K, V> {
    fn default() -> Self {
        Self::new()
    }
}

impl<K, V> Deref for HashMap<K, V> {
    type Target = std::collections::HashMap<K, V, FixedState>;
    fn deref(&self) -> &Self::Target {
        &self.0
    }
}

impl<K, V> DerefMut for HashMap<K, V> {
    fn deref_mut(&mut self) -> &mut Self::Target {
        &mut self.0
    }
}
