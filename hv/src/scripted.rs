//! Scripted reader: the "network" for parsers that are generic over `Read`.  A plan
//! says how many bytes each successive read may return; faults are EOF or an error at an
//! offset, and `Interrupted` before chosen reads.

use std::io::{self, ErrorKind, Read};

#[derive(Clone, Debug)]
pub struct Plan {
    /// sizes of successive reads (each at least 1); after the plan is exhausted, `rest`
    pub sizes: Vec<usize>,
    /// size of reads after `sizes` is used up (usize::MAX = whatever the caller asks)
    pub rest: usize,
    /// the k-th read call (0-based, counting every call) fails with ErrorKind::Interrupted
    pub eintr_before: Vec<usize>,
    /// after all data: None = EOF (Ok(0)); Some(kind) = that error
    pub end_error: Option<ErrorKind>,
}

impl Plan {
    pub fn whole() -> Self {
        Plan { sizes: vec![], rest: usize::MAX, eintr_before: vec![], end_error: None }
    }
    pub fn bytewise() -> Self {
        Plan { sizes: vec![], rest: 1, eintr_before: vec![], end_error: None }
    }
    /// two chunks: [0, k) then the rest
    pub fn split_at(k: usize) -> Self {
        Plan { sizes: vec![k.max(1)], rest: usize::MAX, eintr_before: vec![], end_error: None }
    }
    pub fn chunks(sizes: Vec<usize>) -> Self {
        Plan { sizes, rest: usize::MAX, eintr_before: vec![], end_error: None }
    }
}

pub struct ScriptedReader<'a> {
    data: &'a [u8],
    pos: usize,
    plan: Plan,
    call: usize,
    plan_idx: usize,
    /// number of read calls made (for "terminates within a read budget" oracles)
    pub calls: usize,
    /// remaining budget of read calls; exceeding it returns an error and sets `exhausted`
    pub budget: usize,
    pub exhausted: bool,
}

impl<'a> ScriptedReader<'a> {
    pub fn new(data: &'a [u8], plan: Plan) -> Self {
        let budget = 4 * data.len() + 256;
        ScriptedReader { data, pos: 0, plan, call: 0, plan_idx: 0, calls: 0, budget, exhausted: false }
    }
    pub fn consumed(&self) -> usize {
        self.pos
    }
}

impl Read for ScriptedReader<'_> {
    fn read(&mut self, buf: &mut [u8]) -> io::Result<usize> {
        self.calls += 1;
        if self.calls > self.budget {
            self.exhausted = true;
            return Err(io::Error::new(ErrorKind::Other, "read budget exhausted"));
        }
        let k = self.call;
        self.call += 1;
        if self.plan.eintr_before.contains(&k) {
            return Err(io::Error::new(ErrorKind::Interrupted, "EINTR (scripted)"));
        }
        if buf.is_empty() {
            return Ok(0);
        }
        if self.pos >= self.data.len() {
            return match self.plan.end_error {
                None => Ok(0),
                Some(k) => Err(io::Error::new(k, "scripted stream error")),
            };
        }
        let allowed = if self.plan_idx < self.plan.sizes.len() {
            self.plan.sizes[self.plan_idx].max(1)
        } else {
            self.plan.rest.max(1)
        };
        let n = allowed.min(buf.len()).min(self.data.len() - self.pos);
        buf[..n].copy_from_slice(&self.data[self.pos..self.pos + n]);
        self.pos += n;
        if self.plan_idx < self.plan.sizes.len() {
            // a planned chunk may be consumed by several smaller reads
            if n >= self.plan.sizes[self.plan_idx] {
                self.plan_idx += 1;
            } else {
                self.plan.sizes[self.plan_idx] -= n;
            }
        }
        Ok(n)
    }
}
