//! Simulated HTTP client side: scripted byte streams over humsim::net, with explicit
//! segmentation and gaps, and a record of everything received.

use crate::refs::http::{parse_stream, RespView, StreamEnd};
use humsim::net::{SocketAddr, TcpStream};
use humsim::sim;
use std::io::{Read, Write};
use std::time::Duration;

#[derive(Clone, Debug)]
pub struct RecvLog {
    pub bytes: Vec<u8>,
    /// (offset into bytes, decision index, virtual ns) for each successful read
    pub reads: Vec<(usize, u64, u64)>,
    pub eof: bool,
    pub reset: bool,
    pub eof_stamp: (u64, u64),
    pub other_error: Option<String>,
}

impl RecvLog {
    pub fn new() -> Self {
        RecvLog { bytes: Vec::new(), reads: Vec::new(), eof: false, reset: false, eof_stamp: (0, 0), other_error: None }
    }
    pub fn ended(&self) -> bool {
        self.eof || self.reset || self.other_error.is_some()
    }
    /// virtual ns at which byte `off` was received
    pub fn time_of(&self, off: usize) -> u64 {
        let mut t = 0;
        for (o, _, ns) in &self.reads {
            if *o <= off {
                t = *ns;
            } else {
                break;
            }
        }
        t
    }
}

/// Connect, retrying while the listener is not up yet (bounded).
pub fn connect_retry(src: Option<SocketAddr>, dst: SocketAddr, tries: u32) -> std::io::Result<TcpStream> {
    let mut last = None;
    for _ in 0..tries {
        let r = match src {
            Some(s) => TcpStream::connect_from(s, dst),
            None => TcpStream::connect(dst),
        };
        match r {
            Ok(s) => return Ok(s),
            Err(e) => {
                last = Some(e);
                humsim::thread::sleep(Duration::from_millis(1));
            }
        }
    }
    Err(last.unwrap())
}

/// One read with a virtual timeout; appends to the log.  Returns false when nothing more
/// can arrive (EOF / reset / error) or on timeout.
pub fn read_some(s: &mut TcpStream, log: &mut RecvLog, timeout: Duration) -> bool {
    if log.ended() {
        return false;
    }
    let _ = s.set_read_timeout(Some(timeout));
    let mut buf = [0u8; 4096];
    loop {
        match s.read(&mut buf) {
            Ok(0) => {
                log.eof = true;
                log.eof_stamp = sim::stamp();
                return false;
            }
            Ok(n) => {
                let (d, ns) = sim::stamp();
                log.reads.push((log.bytes.len(), d, ns));
                log.bytes.extend_from_slice(&buf[..n]);
                return true;
            }
            Err(e) if e.kind() == std::io::ErrorKind::Interrupted => continue,
            Err(e) if e.kind() == std::io::ErrorKind::WouldBlock || e.kind() == std::io::ErrorKind::TimedOut => return false,
            Err(e) if e.kind() == std::io::ErrorKind::ConnectionReset => {
                log.reset = true;
                log.eof_stamp = sim::stamp();
                return false;
            }
            Err(e) => {
                log.other_error = Some(e.to_string());
                log.eof_stamp = sim::stamp();
                return false;
            }
        }
    }
}

/// Read until `want` complete responses have been received, the peer closes, or `timeout`
/// of virtual time passes without progress.
pub fn read_responses(s: &mut TcpStream, log: &mut RecvLog, want: usize, timeout: Duration) -> Vec<RespView> {
    loop {
        let (rs, end) = parse_stream(&log.bytes, log.ended());
        if rs.len() >= want || log.ended() {
            return rs;
        }
        if let StreamEnd::Garbage { .. } = end {
            return rs;
        }
        if !read_some(s, log, timeout) && !log.ended() {
            // timeout without progress
            return parse_stream(&log.bytes, false).0;
        }
    }
}

/// Drain until the peer closes or `timeout` passes without progress.
pub fn read_to_end(s: &mut TcpStream, log: &mut RecvLog, timeout: Duration) {
    while read_some(s, log, timeout) {}
}

/// Write all, tolerating EINTR; returns false if the connection failed.
pub fn write_all(s: &mut TcpStream, mut b: &[u8]) -> bool {
    while !b.is_empty() {
        match s.write(b) {
            Ok(0) => return false,
            Ok(n) => b = &b[n..],
            Err(e) if e.kind() == std::io::ErrorKind::Interrupted => continue,
            Err(_) => return false,
        }
    }
    true
}

/// Send `bytes` cut at `cuts` (sorted offsets), one write per segment, sleeping `gap_us`
/// of virtual time between segments.
/// Like `send_segmented`, also returning for every segment (end offset, virtual time just before
/// it was written): no byte of a segment can reach the peer before that instant.
pub fn send_segmented_timed(s: &mut TcpStream, bytes: &[u8], cuts: &[usize], gap_us: u64) -> (bool, Vec<(usize, u64)>) {
    let mut start = 0;
    let mut ends: Vec<usize> = cuts.iter().copied().filter(|&c| c > 0 && c < bytes.len()).collect();
    ends.sort_unstable();
    ends.dedup();
    ends.push(bytes.len());
    let mut times = Vec::new();
    for e in ends {
        if e <= start {
            continue;
        }
        times.push((e, humsim::sim::now_ns()));
        if !write_all(s, &bytes[start..e]) {
            return (false, times);
        }
        start = e;
        if e < bytes.len() && gap_us > 0 {
            humsim::thread::sleep(Duration::from_micros(gap_us));
        }
    }
    (true, times)
}

/// The instant before which byte `last` (offset of a message's last byte) cannot have been sent.
pub fn sent_not_before(times: &[(usize, u64)], last: usize, fallback: u64) -> u64 {
    times.iter().find(|(e, _)| *e > last).map(|(_, t)| *t).unwrap_or(fallback)
}

pub fn send_segmented(s: &mut TcpStream, bytes: &[u8], cuts: &[usize], gap_us: u64) -> bool {
    let mut start = 0;
    let mut ends: Vec<usize> = cuts.iter().copied().filter(|&c| c > 0 && c < bytes.len()).collect();
    ends.sort_unstable();
    ends.dedup();
    ends.push(bytes.len());
    for e in ends {
        if e <= start {
            continue;
        }
        if !write_all(s, &bytes[start..e]) {
            return false;
        }
        start = e;
        if e < bytes.len() && gap_us > 0 {
            humsim::thread::sleep(Duration::from_micros(gap_us));
        }
    }
    true
}
