//! Counting global allocator: peak live bytes per case, and refusal (null => abort, as a
//! real out-of-memory would) of a single request above a ceiling, after writing a marker
//! to stderr with a raw write so the parent can tell what happened.

use std::alloc::{GlobalAlloc, Layout, System};
use std::sync::atomic::{AtomicUsize, Ordering};

pub struct Counting;

pub static LIVE: AtomicUsize = AtomicUsize::new(0);
pub static PEAK: AtomicUsize = AtomicUsize::new(0);
pub static LARGEST: AtomicUsize = AtomicUsize::new(0);
/// single requests above this many bytes are refused (0 = no ceiling)
pub static CEILING: AtomicUsize = AtomicUsize::new(0);

fn note(size: usize) {
    let live = LIVE.fetch_add(size, Ordering::Relaxed) + size;
    PEAK.fetch_max(live, Ordering::Relaxed);
    LARGEST.fetch_max(size, Ordering::Relaxed);
}

fn refused(size: usize) -> bool {
    let c = CEILING.load(Ordering::Relaxed);
    if c != 0 && size > c {
        let mut buf = [0u8; 64];
        let msg = b"ALLOC-REFUSED bytes=";
        buf[..msg.len()].copy_from_slice(msg);
        let mut n = msg.len();
        let mut digits = [0u8; 24];
        let mut d = 0;
        let mut s = size;
        loop {
            digits[d] = b'0' + (s % 10) as u8;
            d += 1;
            s /= 10;
            if s == 0 {
                break;
            }
        }
        while d > 0 {
            d -= 1;
            buf[n] = digits[d];
            n += 1;
        }
        buf[n] = b'\n';
        n += 1;
        unsafe {
            libc::write(2, buf.as_ptr() as *const libc::c_void, n);
        }
        return true;
    }
    false
}

unsafe impl GlobalAlloc for Counting {
    unsafe fn alloc(&self, l: Layout) -> *mut u8 {
        if refused(l.size()) {
            return std::ptr::null_mut();
        }
        let p = System.alloc(l);
        if !p.is_null() {
            note(l.size());
        }
        p
    }
    unsafe fn alloc_zeroed(&self, l: Layout) -> *mut u8 {
        if refused(l.size()) {
            return std::ptr::null_mut();
        }
        let p = System.alloc_zeroed(l);
        if !p.is_null() {
            note(l.size());
        }
        p
    }
    unsafe fn dealloc(&self, p: *mut u8, l: Layout) {
        LIVE.fetch_sub(l.size(), Ordering::Relaxed);
        System.dealloc(p, l)
    }
    unsafe fn realloc(&self, p: *mut u8, l: Layout, new_size: usize) -> *mut u8 {
        if new_size > l.size() && refused(new_size) {
            return std::ptr::null_mut();
        }
        let q = System.realloc(p, l, new_size);
        if !q.is_null() {
            if new_size >= l.size() {
                note(new_size - l.size());
            } else {
                LIVE.fetch_sub(l.size() - new_size, Ordering::Relaxed);
            }
        }
        q
    }
}

/// Start measuring: returns the baseline.
pub fn begin_case() -> usize {
    let live = LIVE.load(Ordering::Relaxed);
    PEAK.store(live, Ordering::Relaxed);
    LARGEST.store(0, Ordering::Relaxed);
    live
}

/// (peak above baseline, largest single request) since `begin_case`.
pub fn end_case(base: usize) -> (usize, usize) {
    (PEAK.load(Ordering::Relaxed).saturating_sub(base), LARGEST.load(Ordering::Relaxed))
}
