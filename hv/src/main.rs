//! hv — harness for the deterministic-simulation checks of Humphrey.
//!
//!   hv check <ID> --tier quick|thorough [--seed N] [--jobs J]   orchestrate one property check
//!   hv replay <file>                                             re-run a replay file in this (fresh) process
//!   hv worker <ID> ...                                           (internal) run a slice of run indices
//!   hv serve <ID>                                                (internal) execute scenarios from stdin
//!   hv selftest determinism [--n N]                              double-run trace-hash comparison for all checks
//!   hv one <ID> --idx I [--tier T] [--seed N] [--trace]          debug: run one index, print everything

mod alloc;
mod common;
mod orch;
mod props;
mod refs;
mod scripted;
mod shrink;
mod simhttp;

use common::*;
use std::io::{BufRead, Write};

#[global_allocator]
static GLOBAL: alloc::Counting = alloc::Counting;

pub fn registry() -> Vec<Box<dyn Prop>> {
    props::all()
}

pub fn find_prop(id: &str) -> Option<Box<dyn Prop>> {
    registry().into_iter().find(|p| p.id() == id)
}

fn arg_val(args: &[String], name: &str) -> Option<String> {
    args.iter().position(|a| a == name).and_then(|i| args.get(i + 1).cloned())
}

fn pin_to_cpu(cpu: usize) {
    unsafe {
        let mut set: libc::cpu_set_t = std::mem::zeroed();
        libc::CPU_ZERO(&mut set);
        libc::CPU_SET(cpu, &mut set);
        libc::sched_setaffinity(0, std::mem::size_of::<libc::cpu_set_t>(), &set);
    }
}

const RECYCLE_LEAK_THRESHOLD: u64 = 600;

/// Wall-clock watchdog: a run that takes longer than this is a harness problem (typically a
/// real lock held across a simulated decision point), reported as exit code 3, never a hang.
static RUN_STARTED_MS: std::sync::atomic::AtomicU64 = std::sync::atomic::AtomicU64::new(0);

fn start_run_watchdog() {
    use std::sync::atomic::Ordering;
    static STARTED: std::sync::atomic::AtomicBool = std::sync::atomic::AtomicBool::new(false);
    if STARTED.swap(true, Ordering::SeqCst) {
        return;
    }
    let t0 = std::time::Instant::now();
    std::thread::spawn(move || loop {
        std::thread::sleep(std::time::Duration::from_millis(1000));
        let s = RUN_STARTED_MS.load(Ordering::SeqCst);
        let now = t0.elapsed().as_millis() as u64 + 1;
        if s != 0 && now > s + 180_000 {
            eprintln!("HARNESS-WATCHDOG: one run exceeded 180 s of wall-clock time; aborting this worker");
            std::process::exit(3);
        }
    });
    WATCHDOG_T0.get_or_init(|| t0);
}

static WATCHDOG_T0: std::sync::OnceLock<std::time::Instant> = std::sync::OnceLock::new();

fn mark_run(start: bool) {
    let t0 = WATCHDOG_T0.get_or_init(std::time::Instant::now);
    RUN_STARTED_MS.store(if start { t0.elapsed().as_millis() as u64 + 1 } else { 0 }, std::sync::atomic::Ordering::SeqCst);
}

fn leaked() -> u64 {
    humsim::sim::LEAKED_THREADS.load(std::sync::atomic::Ordering::Relaxed)
}

fn main() {
    let args: Vec<String> = std::env::args().collect();
    if args.len() < 2 {
        eprintln!("usage: hv check|replay|worker|serve|selftest|one ...");
        std::process::exit(2);
    }
    let tier = match arg_val(&args, "--tier").or_else(|| std::env::var("VERIF_TIER").ok()).as_deref() {
        Some("thorough") => Tier::Thorough,
        _ => Tier::Quick,
    };
    let seed: u64 = arg_val(&args, "--seed")
        .or_else(|| std::env::var("VERIF_SEED").ok())
        .and_then(|s| s.parse().ok())
        .unwrap_or(1);
    match args[1].as_str() {
        "check" => {
            let id = args.get(2).cloned().unwrap_or_default();
            let jobs: usize = arg_val(&args, "--jobs").and_then(|s| s.parse().ok()).unwrap_or(16);
            let max_runs: Option<u64> = arg_val(&args, "--runs").and_then(|s| s.parse().ok());
            std::process::exit(orch::check(&id, tier, seed, jobs, max_runs));
        }
        "replay" => {
            let path = args.get(2).cloned().unwrap_or_default();
            std::process::exit(orch::replay(&path));
        }
        "worker" => {
            let id = args.get(2).cloned().unwrap_or_default();
            let start: u64 = arg_val(&args, "--start").and_then(|s| s.parse().ok()).unwrap_or(0);
            let end: u64 = arg_val(&args, "--end").and_then(|s| s.parse().ok()).unwrap_or(0);
            let stride: u64 = arg_val(&args, "--stride").and_then(|s| s.parse().ok()).unwrap_or(1);
            let deadline_s: f64 = arg_val(&args, "--deadline-s").and_then(|s| s.parse().ok()).unwrap_or(1e9);
            if let Some(cpu) = arg_val(&args, "--cpu").and_then(|s| s.parse().ok()) {
                pin_to_cpu(cpu);
            }
            worker(&id, tier, seed, start, end, stride, deadline_s);
        }
        "serve" => {
            let id = args.get(2).cloned().unwrap_or_default();
            if let Some(cpu) = arg_val(&args, "--cpu").and_then(|s| s.parse().ok()) {
                pin_to_cpu(cpu);
            }
            serve(&id);
        }
        "selftest" => {
            let n: u64 = arg_val(&args, "--n").and_then(|s| s.parse().ok()).unwrap_or(64);
            let only = arg_val(&args, "--only");
            std::process::exit(orch::selftest_determinism(seed, n, only));
        }
        "one" => {
            let id = args.get(2).cloned().unwrap_or_default();
            let idx: u64 = arg_val(&args, "--idx").and_then(|s| s.parse().ok()).unwrap_or(0);
            let p = find_prop(&id).expect("unknown property");
            let mut scn = p.generate(seed, idx, tier);
            if args.iter().any(|a| a == "--trace") {
                if let Some(s) = scn.get_mut("sim") {
                    s["trace"] = serde_json::Value::Bool(true);
                }
            }
            humsim::sim::install_panic_hook();
            println!("{}", serde_json::to_string_pretty(&scn).unwrap());
            let r = p.execute(&scn);
            println!("{}", serde_json::to_string_pretty(&r).unwrap());
        }
        "list" => {
            for p in registry() {
                println!("{} quick={} thorough={}", p.id(), p.runs(Tier::Quick), p.runs(Tier::Thorough));
            }
        }
        _ => {
            eprintln!("unknown subcommand");
            std::process::exit(2);
        }
    }
}

/// Worker: runs indices start, start+stride, ... < end.  Output protocol (one line each):
///   V {"idx":..,"result":..,"scenario":..}   a run with violations or a harness error
///   P {"idx":..,"sample":..}                 a sample (first few runs only)
///   R <next idx>                             recycle me (too many abandoned threads); exit code 17
///   S {summary}                              final summary; exit code 0
/// (Re-)install the simulator's panic hook, without trusting that it can be done: a thread
/// abandoned at the end of an earlier run may be parked inside the panic hook of that run
/// (Humphrey's own hook takes a lock, which is a decision point), and std holds its global hook
/// lock while a hook runs, so `set_hook` would then block forever.  Returns false if it did not
/// complete within three seconds: the process is then poisoned and must be replaced.
fn safe_install_hook() -> bool {
    let (tx, rx) = std::sync::mpsc::channel::<()>();
    std::thread::spawn(move || {
        humsim::sim::install_panic_hook();
        let _ = tx.send(());
    });
    rx.recv_timeout(std::time::Duration::from_secs(3)).is_ok()
}

fn worker(id: &str, tier: Tier, seed: u64, start: u64, end: u64, stride: u64, deadline_s: f64) {
    let p = find_prop(id).expect("unknown property");
    let t0 = std::time::Instant::now();
    let out = std::io::stdout();
    let mut agg = orch::Summary::default();
    let mut idx = start;
    while idx < end {
        if t0.elapsed().as_secs_f64() > deadline_s {
            agg.stopped_at_deadline = true;
            break;
        }
        if !safe_install_hook() {
            // recycle: the orchestrator starts a fresh process at this index
            let mut o = out.lock();
            writeln!(o, "S {}", serde_json::to_string(&agg).unwrap()).ok();
            writeln!(o, "R {}", idx).ok();
            o.flush().ok();
            std::process::exit(17);
        }
        let scn = p.generate(seed, idx, tier);
        if p.isolated() {
            #[cfg(not(feature = "tk"))]
            props::c03::ANNOUNCE.store(true, std::sync::atomic::Ordering::SeqCst);
            let mut o = out.lock();
            writeln!(o, "A {}", idx).ok();
            o.flush().ok();
        }
        start_run_watchdog();
        mark_run(true);
        let r = p.execute(&scn);
        mark_run(false);
        agg.add(&r);
        if !r.violations.is_empty() || r.harness_error.is_some() {
            let line = serde_json::json!({"idx": idx, "result": r, "scenario": scn});
            let mut o = out.lock();
            writeln!(o, "V {}", line).ok();
        } else if agg.samples_emitted < 2 && !r.shapes.is_empty() {
            if let Some(s) = &r.sample {
                agg.samples_emitted += 1;
                let line = serde_json::json!({"idx": idx, "sample": s});
                let mut o = out.lock();
                writeln!(o, "P {}", line).ok();
            }
        }
        idx += stride;
        if p.isolated() {
            // a later case may kill this process: hand the totals over after every run
            let mut o = out.lock();
            writeln!(o, "S {}", serde_json::to_string(&agg).unwrap()).ok();
            o.flush().ok();
            let emitted = agg.samples_emitted;
            agg = orch::Summary::default();
            agg.samples_emitted = emitted;
        }
        if leaked() > RECYCLE_LEAK_THRESHOLD && idx < end {
            let mut o = out.lock();
            writeln!(o, "S {}", serde_json::to_string(&agg).unwrap()).ok();
            writeln!(o, "R {}", idx).ok();
            o.flush().ok();
            std::process::exit(17);
        }
    }
    let mut o = out.lock();
    writeln!(o, "S {}", serde_json::to_string(&agg).unwrap()).ok();
    o.flush().ok();
    std::process::exit(0);
}

/// Executor: one scenario JSON per stdin line -> one RunResult JSON per stdout line.
fn serve(id: &str) {
    let p = find_prop(id).expect("unknown property");
    let stdin = std::io::stdin();
    let out = std::io::stdout();
    for line in stdin.lock().lines() {
        let line = match line {
            Ok(l) => l,
            Err(_) => break,
        };
        if line.trim().is_empty() {
            continue;
        }
        let r = match serde_json::from_str::<serde_json::Value>(&line) {
            Ok(scn) => {
                if !safe_install_hook() {
                    // poisoned by an earlier scenario: the executor's parent retries in a new child
                    std::process::exit(17);
                }
                start_run_watchdog();
                mark_run(true);
                let r = p.execute(&scn);
                mark_run(false);
                r
            }
            Err(e) => RunResult { harness_error: Some(format!("bad scenario json: {}", e)), ..Default::default() },
        };
        let mut o = out.lock();
        writeln!(o, "{}", serde_json::to_string(&r).unwrap()).ok();
        o.flush().ok();
        if leaked() > RECYCLE_LEAK_THRESHOLD {
            std::process::exit(17);
        }
    }
}
