//! Generic scenario minimiser: scenarios are JSON data, so shrinking is structural —
//! drop array elements, shrink numbers and strings, simplify the schedule strategy —
//! and a candidate is kept only if the same (rule, sig) still fires.

use crate::common::RunResult;
use crate::orch::Executor;
use serde_json::Value;
use std::time::Instant;

/// Keys never shrunk (their value only has meaning relative to other fields).
const PROTECTED_KEYS: [&str; 10] = ["seed", "epoch_secs", "max_decisions", "timeout_ms", "heartbeat", "limit", "rx_capacity", "latency_max_ns", "status", "near_us"];
/// String keys holding an enumerated value: shrinking characters would leave the vocabulary.
const ENUM_KEYS: [&str; 24] = ["kind", "op", "mode", "method", "path", "version", "conn", "ending", "cors", "malformed", "host", "route", "pattern", "addr", "src", "target", "cut_kind", "garbage", "seg", "framing", "matches", "peer", "lifetime", "jump"];

/// All one-step simplifications of `v` (whole-value variants), simplest first.
fn variants(v: &Value, key: Option<&str>, out: &mut Vec<Value>, depth: usize) {
    match v {
        Value::Array(a) => {
            let n = a.len();
            if n > 0 {
                out.push(Value::Array(vec![]));
            }
            if n > 3 {
                out.push(Value::Array(a[..n / 2].to_vec()));
                out.push(Value::Array(a[n / 2..].to_vec()));
            }
            if n > 1 && n <= 40 {
                for i in 0..n {
                    let mut b = a.clone();
                    b.remove(i);
                    out.push(Value::Array(b));
                }
            }
            if depth < 8 {
                for i in 0..n.min(40) {
                    let mut sub = Vec::new();
                    variants(&a[i], None, &mut sub, depth + 1);
                    for s in sub {
                        let mut b = a.clone();
                        b[i] = s;
                        out.push(Value::Array(b));
                    }
                }
            }
        }
        Value::Object(o) => {
            for (k, val) in o {
                if PROTECTED_KEYS.contains(&k.as_str()) {
                    continue;
                }
                let mut sub = Vec::new();
                variants(val, Some(k), &mut sub, depth + 1);
                for s in sub {
                    let mut b = o.clone();
                    b.insert(k.clone(), s);
                    out.push(Value::Object(b));
                }
            }
        }
        Value::Number(n) => {
            if let Some(u) = n.as_u64() {
                if u > 0 {
                    out.push(Value::from(0u64));
                }
                if u > 1 {
                    out.push(Value::from(1u64));
                }
                if u > 3 {
                    out.push(Value::from(u / 2));
                }
                if u > 2 {
                    out.push(Value::from(u - 1));
                }
            }
        }
        Value::String(s) => {
            if key == Some("strategy") {
                for cand in ["rr", "sticky:990", "random"] {
                    if s != cand {
                        out.push(Value::from(cand));
                    }
                }
                return;
            }
            if let Some(k) = key {
                if ENUM_KEYS.contains(&k) {
                    return;
                }
            }
            let chars: Vec<char> = s.chars().collect();
            let n = chars.len();
            if n > 0 {
                out.push(Value::from(""));
            }
            if n > 3 {
                out.push(Value::from(chars[..n / 2].iter().collect::<String>()));
                out.push(Value::from(chars[n / 2..].iter().collect::<String>()));
            }
            if n > 1 && n <= 24 {
                for i in 0..n {
                    let mut c = chars.clone();
                    c.remove(i);
                    out.push(Value::from(c.iter().collect::<String>()));
                }
            }
        }
        Value::Bool(true) => out.push(Value::Bool(false)),
        _ => {}
    }
}

fn fires(r: &RunResult, rule: &str, sig: &str) -> bool {
    r.harness_error.is_none() && r.violations.iter().any(|v| v.rule == rule && v.sig == sig)
}

/// Returns (minimised scenario, its result, accepted steps).
pub fn minimise(exec: &mut Executor, scn: &Value, rule: &str, sig: &str, budget: usize, wall_s: f64) -> (Value, RunResult, usize) {
    let t0 = Instant::now();
    let mut best = scn.clone();
    let mut best_res = exec.exec(&best);
    if !fires(&best_res, rule, sig) {
        // not reproducible in the executor: return as is (the caller's replay check reports it)
        return (best, best_res, 0);
    }
    let mut used = 0usize;
    let mut steps = 0usize;
    'outer: loop {
        let mut cands = Vec::new();
        variants(&best, None, &mut cands, 0);
        let best_len = serde_json::to_string(&best).map(|s| s.len()).unwrap_or(0);
        for c in cands {
            if used >= budget || t0.elapsed().as_secs_f64() > wall_s {
                break 'outer;
            }
            let clen = serde_json::to_string(&c).map(|s| s.len()).unwrap_or(0);
            if clen > best_len {
                continue;
            }
            used += 1;
            let r = exec.exec(&c);
            if fires(&r, rule, sig) {
                best = c;
                best_res = r;
                steps += 1;
                continue 'outer;
            }
        }
        break;
    }
    (best, best_res, steps)
}
