//! Orchestration: worker processes (one per core, pinned), aggregation, minimisation,
//! replay verification, known findings, evidence.

use crate::common::*;
use crate::{find_prop, shrink};
use serde::{Deserialize, Serialize};
use serde_json::{json, Value};
use std::collections::{BTreeMap, BTreeSet};
use std::io::{BufRead, BufReader, Write};
use std::process::{Child, ChildStdin, ChildStdout, Command, Stdio};
use std::sync::{Arc, Mutex};
use std::time::Instant;

pub const VERIF_DIR: &str = "/verif";

#[cfg(not(feature = "tk"))]
use crate::props::c03::{case_feature, death_signature};
#[cfg(feature = "tk")]
fn death_signature(status: &str, _tail: &str) -> String {
    format!("process-died:{}", status)
}
#[cfg(feature = "tk")]
fn case_feature(_scn: &Value) -> String {
    String::new()
}

#[derive(Serialize, Deserialize, Default, Clone, Debug)]
pub struct Summary {
    pub runs: u64,
    pub evals: u64,
    pub decisions: u64,
    pub virtual_ns: u128,
    pub counters: BTreeMap<String, u64>,
    pub trace_hashes: Vec<u64>,
    pub shapes: Vec<u64>,
    pub runs_with_violation: u64,
    pub harness_errors: u64,
    pub stopped_at_deadline: bool,
    #[serde(default)]
    pub samples_emitted: u64,
}

impl Summary {
    pub fn add(&mut self, r: &RunResult) {
        self.runs += 1;
        self.evals += r.evals.max(1);
        self.decisions += r.decisions;
        self.virtual_ns += r.virtual_ns as u128;
        for (k, v) in &r.counters {
            *self.counters.entry(k.clone()).or_insert(0) += v;
        }
        if r.trace_hash != 0 {
            self.trace_hashes.push(r.trace_hash);
        }
        self.shapes.extend(r.shapes.iter().copied());
        if !r.violations.is_empty() {
            self.runs_with_violation += 1;
        }
        if r.harness_error.is_some() {
            self.harness_errors += 1;
        }
    }
    pub fn merge(&mut self, o: Summary) {
        self.runs += o.runs;
        self.evals += o.evals;
        self.decisions += o.decisions;
        self.virtual_ns += o.virtual_ns;
        for (k, v) in o.counters {
            *self.counters.entry(k).or_insert(0) += v;
        }
        self.trace_hashes.extend(o.trace_hashes);
        self.shapes.extend(o.shapes);
        self.runs_with_violation += o.runs_with_violation;
        self.harness_errors += o.harness_errors;
        self.stopped_at_deadline |= o.stopped_at_deadline;
    }
}

#[derive(Clone, Debug)]
pub struct Found {
    /// id the worker/executor knows this run under ("C01" or its tokio twin "C01T")
    pub wid: String,
    pub idx: u64,
    pub result: RunResult,
    pub scenario: Value,
}

pub const TK_EXE_DEFAULT: &str = "/verif/tk/target/release/hvtk";

/// The tokio-twin build of this harness (HV_TK_EXE overrides the path, used to run a frozen
/// copy of both binaries while the sources are being edited).
pub fn tk_exe() -> String {
    std::env::var("HV_TK_EXE").unwrap_or_else(|_| TK_EXE_DEFAULT.to_string())
}

/// Properties that also run on the tokio twin (a separate build of the harness).
pub fn twin_of(id: &str) -> Option<String> {
    if cfg!(feature = "tk") {
        return None;
    }
    match id {
        "C01" | "C02" | "C04" | "C20" => Some(format!("{}T", id)),
        _ => None,
    }
}

fn exe_for(id: &str) -> String {
    if id.ends_with('T') && !cfg!(feature = "tk") {
        tk_exe()
    } else {
        self_exe()
    }
}

/// `runs(tier)` of a twin check, asked from the twin binary.
fn twin_runs(wid: &str, tier: Tier) -> Option<u64> {
    let out = Command::new(tk_exe()).arg("list").output().ok()?;
    let text = String::from_utf8_lossy(&out.stdout).to_string();
    for l in text.lines() {
        let mut it = l.split_whitespace();
        if it.next() == Some(wid) {
            for kv in it {
                if let Some(v) = kv.strip_prefix(if tier == Tier::Quick { "quick=" } else { "thorough=" }) {
                    return v.parse().ok();
                }
            }
        }
    }
    None
}

/// Where replay files go (HV_REPLAY_DIR overrides: used when a deliberately broken copy of
/// /repo is being evaluated, so that nothing it produces lands among the real artefacts).
fn replay_dir() -> String {
    std::env::var("HV_REPLAY_DIR").unwrap_or_else(|_| format!("{}/replays", VERIF_DIR))
}

/// Where evidence files go (HV_EVIDENCE_DIR overrides, same purpose).
fn evidence_dir() -> String {
    std::env::var("HV_EVIDENCE_DIR").unwrap_or_else(|_| format!("{}/evidence", VERIF_DIR))
}

fn self_exe() -> String {
    std::env::current_exe().map(|p| p.to_string_lossy().to_string()).unwrap_or_else(|_| format!("{}/target/release/hv", VERIF_DIR))
}

// ---------------------------------------------------------------- executor child

pub struct Executor {
    isolated: bool,
    id: String,
    child: Option<(Child, ChildStdin, BufReader<ChildStdout>)>,
    pub executions: u64,
}

impl Executor {
    pub fn new(id: &str) -> Self {
        Executor { isolated: find_prop(id).map(|p| p.isolated()).unwrap_or(false), id: id.to_string(), child: None, executions: 0 }
    }
    fn ensure(&mut self) {
        if self.child.is_none() {
            let mut c = Command::new(exe_for(&self.id))
                .args(["serve", &self.id, "--cpu", "0"])
                .stdin(Stdio::piped())
                .stdout(Stdio::piped())
                .stderr(if self.isolated { Stdio::piped() } else { Stdio::null() })
                .spawn()
                .expect("cannot spawn executor");
            let i = c.stdin.take().unwrap();
            let o = BufReader::new(c.stdout.take().unwrap());
            self.child = Some((c, i, o));
        }
    }
    /// Execute one scenario in the child; restarts the child when it recycled itself.
    pub fn exec(&mut self, scn: &Value) -> RunResult {
        for _attempt in 0..3 {
            self.ensure();
            let (_, i, o) = self.child.as_mut().unwrap();
            let line = serde_json::to_string(scn).unwrap();
            if writeln!(i, "{}", line).is_err() || i.flush().is_err() {
                self.kill();
                continue;
            }
            let mut resp = String::new();
            match o.read_line(&mut resp) {
                Ok(n) if n > 0 => {
                    self.executions += 1;
                    match serde_json::from_str::<RunResult>(&resp) {
                        Ok(r) => return r,
                        Err(e) => {
                            return RunResult { harness_error: Some(format!("executor reply unparsable: {}", e)), ..Default::default() }
                        }
                    }
                }
                _ => {
                    // child died (recycle exit or crash)
                    if self.isolated {
                        let (status, tail) = self.reap();
                        if !status.contains("17") {
                            let kind = death_signature(&status, &tail);
                            let sig = format!("{}:{}:{}", kind, scn["target"].as_str().unwrap_or("?"), case_feature(scn));
                            let mut r = RunResult::default();
                            r.violate(&format!("{}/R1", self.id), sig, format!("executor process died ({}) on this scenario; stderr tail: {}", status, tail.replace('\n', " | ")));
                            return r;
                        }
                        continue;
                    }
                    self.kill();
                    continue;
                }
            }
        }
        RunResult { harness_error: Some("executor child died repeatedly on this scenario".into()), ..Default::default() }
    }
    /// Wait for a dead child; returns (status text, stderr tail).
    fn reap(&mut self) -> (String, String) {
        if let Some((mut c, i, _)) = self.child.take() {
            drop(i);
            let mut tail = String::new();
            if let Some(mut e) = c.stderr.take() {
                use std::io::Read;
                let mut buf = Vec::new();
                let _ = e.read_to_end(&mut buf);
                let t = String::from_utf8_lossy(&buf).to_string();
                tail = t.chars().rev().take(600).collect::<String>().chars().rev().collect();
            }
            let st = c.wait().map(|s| format!("{:?}", s)).unwrap_or_default();
            return (st, tail);
        }
        (String::new(), String::new())
    }
    pub fn kill(&mut self) {
        if let Some((mut c, i, _)) = self.child.take() {
            drop(i);
            let _ = c.kill();
            let _ = c.wait();
        }
    }
    /// A fresh process for the next execution.
    pub fn fresh(&mut self) {
        self.kill();
    }
}

impl Drop for Executor {
    fn drop(&mut self) {
        self.kill();
    }
}

// ---------------------------------------------------------------- known findings

#[derive(Deserialize, Clone, Debug)]
pub struct Finding {
    pub id: String,
    pub property: String,
    pub rule: String,
    pub sig: String,
    /// "open" | "fixed"
    pub status: String,
    #[serde(default)]
    pub commit: String,
    pub what: String,
}

pub fn load_findings() -> Vec<Finding> {
    let p = format!("{}/known_findings.json", VERIF_DIR);
    match std::fs::read_to_string(&p) {
        Ok(s) => {
            let v: Value = serde_json::from_str(&s).unwrap_or(json!({"findings": []}));
            serde_json::from_value(v["findings"].clone()).unwrap_or_default()
        }
        Err(_) => vec![],
    }
}

// ---------------------------------------------------------------- check

pub fn check(id: &str, tier: Tier, seed: u64, jobs: usize, max_runs: Option<u64>) -> i32 {
    let t0 = Instant::now();
    let prop = match find_prop(id) {
        Some(p) => p,
        None => {
            eprintln!("hv: unknown property {}", id);
            return 2;
        }
    };
    let total = max_runs.unwrap_or_else(|| prop.runs(tier));
    let jobs = jobs.min(total.max(1) as usize).max(1);
    let deadline_s: f64 = std::env::var("HV_DEADLINE_S").ok().and_then(|s| s.parse().ok()).unwrap_or(match tier {
        Tier::Quick => 600.0,
        Tier::Thorough => 1500.0,
    });
    println!("hv: check {} tier={} seed={} runs={} jobs={}", id, tier.name(), seed, total, jobs);

    // last line of defence against a hang of the harness itself: the workers stop on their own at
    // the deadline (twice: check and twin phase) and minimisation is budgeted; if the whole check is
    // still running long after that, something outside a simulation is stuck (for instance a worker
    // blocked on a process-global lock) -- report a harness error, never hang and never a violation
    {
        let limit = std::time::Duration::from_secs_f64(deadline_s * 2.0 + 1800.0);
        let me = std::process::id();
        let label = id.to_string();
        std::thread::spawn(move || {
            std::thread::sleep(limit);
            println!("HARNESS-ERROR: check {} still running {} s after it started (deadline {} s): the harness is stuck; killing its workers", label, limit.as_secs(), deadline_s);
            let _ = Command::new("pkill").args(["-KILL", "-P", &me.to_string()]).status();
            std::process::exit(2);
        });
    }
    let summary = Arc::new(Mutex::new(Summary::default()));
    let found: Arc<Mutex<Vec<Found>>> = Arc::new(Mutex::new(Vec::new()));
    let samples: Arc<Mutex<Vec<Value>>> = Arc::new(Mutex::new(Vec::new()));
    let errors: Arc<Mutex<Vec<String>>> = Arc::new(Mutex::new(Vec::new()));
    let recycles = Arc::new(Mutex::new(0u64));
    // phases: the check itself, then (for some properties) its tokio twin from the twin binary
    let mut phases: Vec<(String, u64)> = vec![(id.to_string(), total)];
    let mut engine_runs: BTreeMap<String, u64> = BTreeMap::new();
    if let Some(t) = twin_of(id) {
        match twin_runs(&t, tier) {
            Some(n) => phases.push((t, max_runs.map(|m| m.min(n)).unwrap_or(n))),
            None => errors.lock().unwrap().push(format!("the tokio twin binary {} is missing or does not list {}", tk_exe(), t)),
        }
    }
    for (wid, total) in phases {
    let runs_before = summary.lock().unwrap().runs;
    let jobs = jobs.min(total.max(1) as usize).max(1);
    let mut handles = Vec::new();
    for w in 0..jobs {
        let (summary, found, samples, errors, recycles) = (summary.clone(), found.clone(), samples.clone(), errors.clone(), recycles.clone());
        let id = wid.clone();
        let isolated = prop.isolated();
        handles.push(std::thread::spawn(move || {
            let mut start = w as u64;
            let t_start = Instant::now();
            loop {
                if start >= total {
                    break;
                }
                let remaining = (deadline_s - t_start.elapsed().as_secs_f64()).max(1.0);
                let mut child = match Command::new(exe_for(&id))
                    .args([
                        "worker", &id, "--tier", tier.name(), "--seed", &seed.to_string(), "--start", &start.to_string(),
                        "--end", &total.to_string(), "--stride", &jobs.to_string(), "--cpu", &(w % 16).to_string(),
                        "--deadline-s", &format!("{}", remaining),
                    ])
                    .stdout(Stdio::piped())
                    .stderr(Stdio::piped())
                    .spawn()
                {
                    Ok(c) => c,
                    Err(e) => {
                        errors.lock().unwrap().push(format!("cannot spawn worker: {}", e));
                        break;
                    }
                };
                let out = BufReader::new(child.stdout.take().unwrap());
                let mut next: Option<u64> = None;
                let mut got_summary = false;
                let mut announced_idx: Option<u64> = None;
                let mut announced_case: Option<u64> = None;
                // drain stderr concurrently so a chatty child cannot block on a full pipe
                let err_pipe = child.stderr.take();
                let err_thread = std::thread::spawn(move || {
                    let mut t = String::new();
                    if let Some(mut e) = err_pipe {
                        use std::io::Read;
                        let mut buf = Vec::new();
                        let _ = e.read_to_end(&mut buf);
                        t = String::from_utf8_lossy(&buf).to_string();
                    }
                    t
                });
                for line in out.lines() {
                    let line = match line {
                        Ok(l) => l,
                        Err(_) => break,
                    };
                    if let Some(rest) = line.strip_prefix("V ") {
                        if let Ok(v) = serde_json::from_str::<Value>(rest) {
                            let f = Found {
                                wid: id.clone(),
                                idx: v["idx"].as_u64().unwrap_or(0),
                                result: serde_json::from_value(v["result"].clone()).unwrap_or_default(),
                                scenario: v["scenario"].clone(),
                            };
                            found.lock().unwrap().push(f);
                        }
                    } else if let Some(rest) = line.strip_prefix("P ") {
                        if let Ok(v) = serde_json::from_str::<Value>(rest) {
                            let mut s = samples.lock().unwrap();
                            if s.len() < 6 {
                                s.push(v);
                            }
                        }
                    } else if let Some(rest) = line.strip_prefix("S ") {
                        if let Ok(s) = serde_json::from_str::<Summary>(rest) {
                            summary.lock().unwrap().merge(s);
                            got_summary = true;
                        }
                    } else if let Some(rest) = line.strip_prefix("R ") {
                        next = rest.trim().parse().ok();
                    } else if let Some(rest) = line.strip_prefix("A ") {
                        announced_idx = rest.trim().parse().ok();
                        announced_case = None;
                    } else if let Some(rest) = line.strip_prefix("C ") {
                        announced_case = rest.trim().parse().ok();
                    }
                }
                let err_text = err_thread.join().unwrap_or_default();
                let status = child.wait().ok();
                let code = status.and_then(|s| s.code());
                match (code, next) {
                    (Some(17), Some(n)) => {
                        *recycles.lock().unwrap() += 1;
                        start = n;
                        continue;
                    }
                    (Some(0), _) if got_summary => break,
                    _ if isolated && announced_idx.is_some() && code != Some(0) && code != Some(17) => {
                        // the worker died inside an announced case: that is a finding about the case
                        let idx = announced_idx.unwrap();
                        let tail: String = err_text.chars().rev().take(600).collect::<String>().chars().rev().collect();
                        let kind = death_signature(&format!("{:?}", status), &tail);
                        let mut scn = find_prop(&id).map(|p| p.generate(seed, idx, tier)).unwrap_or(Value::Null);
                        if let Some(c) = announced_case {
                            scn["only_case"] = json!(c);
                        }
                        let sig = format!("{}:{}:{}", kind, scn["target"].as_str().unwrap_or("?"), case_feature(&scn));
                        let mut r = RunResult::default();
                        r.violate(&format!("{}/R1", id), sig, format!("worker process died ({:?}) while running run {} case {:?}; stderr tail: {}", status, idx, announced_case, tail.replace('\n', " | ")));
                        found.lock().unwrap().push(Found { wid: id.clone(), idx, result: r, scenario: scn });
                        *recycles.lock().unwrap() += 1;
                        start = idx + jobs as u64;
                        continue;
                    }
                    _ => {
                        let tail: String = err_text.chars().rev().take(1500).collect::<String>().chars().rev().collect();
                        errors.lock().unwrap().push(format!("worker {} (start {}) died: status {:?}; stderr tail: {}", w, start, status, tail));
                        break;
                    }
                }
            }
        }));
    }
    for h in handles {
        let _ = h.join();
    }
    let done = summary.lock().unwrap().runs - runs_before;
    engine_runs.insert(if wid.ends_with('T') { "tokio-twin".to_string() } else { "threads".to_string() }, done);
    }
    let mut summary = summary.lock().unwrap().clone();
    let errors = errors.lock().unwrap().clone();
    let mut found = found.lock().unwrap().clone();
    found.sort_by_key(|f| f.idx);
    let samples = samples.lock().unwrap().clone();
    let sim_wall = t0.elapsed().as_secs_f64();

    let harness_err_runs: Vec<&Found> = found.iter().filter(|f| f.result.harness_error.is_some()).collect();
    let mut harness_problem = !errors.is_empty() || !harness_err_runs.is_empty();
    for e in &errors {
        println!("HARNESS-ERROR: {}", e);
    }
    for f in harness_err_runs.iter().take(5) {
        println!("HARNESS-ERROR: run idx {}: {}", f.idx, f.result.harness_error.clone().unwrap_or_default());
    }

    // ---- group violations by (rule, sig) --------------------------------------
    let mut groups: BTreeMap<(String, String), Vec<&Found>> = BTreeMap::new();
    for f in &found {
        for v in &f.result.violations {
            groups.entry((v.rule.clone(), v.sig.clone())).or_default().push(f);
        }
    }
    let findings = load_findings();
    let mut execs: BTreeMap<String, Executor> = BTreeMap::new();
    let mut violation_lines: Vec<String> = Vec::new();
    let mut known_lines: Vec<String> = Vec::new();
    let mut reported = Vec::new();
    let _ = std::fs::create_dir_all(replay_dir());
    let budget_per_group = if groups.len() > 6 { 120 } else { 300 };
    // all minimisation together is budgeted too (a badly broken tree can fail in dozens of classes):
    // once it is spent, the remaining classes are reported with the scenario that found them,
    // still replayed in a fresh process first
    let minimise_started = Instant::now();
    let minimise_total_s = if tier == Tier::Quick { 240.0 } else { 600.0 };
    for ((rule, sig), fs) in &groups {
        let first = fs[0];
        let known = findings.iter().find(|k| k.property == id && k.rule == *rule && k.sig == *sig && k.status == "open");
        if let Some(k) = known {
            known_lines.push(format!("KNOWN-FINDING: property={} {} [{} {}; {} run(s), first idx {}]", id, k.what, rule, sig, fs.len(), first.idx));
            reported.push(json!({"rule": rule, "sig": sig, "runs": fs.len(), "first_idx": first.idx, "known_finding": k.id}));
            continue;
        }
        // minimise, holding the violation class fixed
        let exec = execs.entry(first.wid.clone()).or_insert_with(|| Executor::new(&first.wid));
        let left = (minimise_total_s - minimise_started.elapsed().as_secs_f64()).max(0.0);
        let (min_scn, min_res, steps) = shrink::minimise(exec, &first.scenario, rule, sig, if left > 0.0 { budget_per_group } else { 0 }, left.min(90.0));
        // replay in a fresh process: must reproduce rule+sig and the same trace hash
        exec.fresh();
        let again = exec.exec(&min_scn);
        let reproduced = again.violations.iter().any(|v| v.rule == *rule && v.sig == *sig);
        let same_trace = again.trace_hash == min_res.trace_hash;
        if !reproduced || !same_trace {
            println!(
                "HARNESS-ERROR: violation {} {} (idx {}) did not replay identically in a fresh process (reproduced={}, same_trace={}): determinism leak, not reported as a violation",
                rule, sig, first.idx, reproduced, same_trace
            );
            harness_problem = true;
            continue;
        }
        let detail = min_res.violations.iter().find(|v| v.rule == *rule && v.sig == *sig).map(|v| v.detail.clone()).unwrap_or_default();
        let h = hash_json(&json!([rule, sig]));
        let path = format!("{}/{}-{:016x}.json", replay_dir(), id, h);
        let replay = json!({
            "property": id, "engine_id": first.wid, "rule": rule, "sig": sig, "detail": detail,
            "seed": seed, "tier": tier.name(), "first_idx": first.idx, "runs_failing": fs.len(),
            "minimise_steps": steps, "trace_hash": min_res.trace_hash,
            "scenario": min_scn,
            "original_scenario": first.scenario,
            "how_to_replay": format!("cd /verif && ./hv replay {}", path),
        });
        let _ = std::fs::write(&path, serde_json::to_string_pretty(&replay).unwrap());
        violation_lines.push(format!("VIOLATION property={} replay={}", id, path));
        println!("  {} {}: {}", rule, sig, detail.chars().take(600).collect::<String>());
        reported.push(json!({"rule": rule, "sig": sig, "runs": fs.len(), "first_idx": first.idx, "replay": path}));
    }
    drop(execs);

    // ---- evidence --------------------------------------------------------------
    let wall = t0.elapsed().as_secs_f64();
    let distinct_traces: BTreeSet<u64> = summary.trace_hashes.iter().copied().collect();
    let distinct_shapes: BTreeSet<u64> = summary.shapes.iter().copied().collect();
    summary.trace_hashes.clear();
    let mut zero_counters = Vec::new();
    for c in prop.expected_counters() {
        if summary.counters.get(c).copied().unwrap_or(0) == 0 {
            zero_counters.push(c.to_string());
        }
    }
    let (real, stub) = prop.real_vs_stub();
    let mut sample_list: Vec<Value> = samples;
    if sample_list.is_empty() {
        sample_list.push(json!({"note": "no non-trivial passing sample was emitted", "first_scenario": prop.generate(seed, 0, tier)}));
    }
    let exhaustive = prop.exhaustive(tier) && !summary.stopped_at_deadline && max_runs.is_none();
    let evidence = json!({
        "property_id": id,
        "tier": tier.name(),
        "seed": seed,
        "level": prop.level(),
        "coverage": {
            "evaluations": summary.evals,
            "distinct_nontrivial": distinct_shapes.len(),
            "rule": prop.rule(),
            "samples": sample_list,
            "exhaustive": exhaustive,
            "simulated_runs": summary.runs,
            "runs_per_engine": engine_runs,
            "runs_per_hour": if sim_wall > 0.0 { (summary.runs as f64 / sim_wall * 3600.0) as u64 } else { 0 },
            "seeds_per_hour": if sim_wall > 0.0 { (summary.runs as f64 / sim_wall * 3600.0) as u64 } else { 0 },
            "simulated_seconds": summary.virtual_ns as f64 / 1e9,
            "scheduler_decisions": summary.decisions,
            "distinct_schedule_traces": distinct_traces.len(),
            "fault_and_probe_counters": summary.counters,
            "expected_probes_stuck_at_zero": zero_counters,
            "worker_recycles": *recycles.lock().unwrap(),
            "stopped_at_deadline": summary.stopped_at_deadline,
            "real_code": real,
            "stubbed": stub,
            "violation_classes": reported,
        },
        "assumptions": prop.assumptions(),
        "wall_s": wall,
        "violations": violation_lines.len(),
    });
    let _ = std::fs::create_dir_all(evidence_dir());
    let epath = format!("{}/{}.json", evidence_dir(), id);
    if let Err(e) = std::fs::write(&epath, serde_json::to_string_pretty(&evidence).unwrap()) {
        println!("HARNESS-ERROR: cannot write evidence: {}", e);
        harness_problem = true;
    }
    println!(
        "hv: {} runs={} evals={} distinct_nontrivial={} decisions={} virtual_s={:.1} wall_s={:.1} recycles={}",
        id, summary.runs, summary.evals, distinct_shapes.len(), summary.decisions, summary.virtual_ns as f64 / 1e9, wall, *recycles.lock().unwrap()
    );
    if !zero_counters.is_empty() {
        println!("hv: NOTE probes stuck at zero: {:?}", zero_counters);
    }
    for l in &known_lines {
        println!("{}", l);
    }
    for l in &violation_lines {
        println!("{}", l);
    }
    if !violation_lines.is_empty() {
        return 1;
    }
    if harness_problem {
        return 2;
    }
    println!("hv: {} OK", id);
    0
}

// ---------------------------------------------------------------- replay

pub fn replay(path: &str) -> i32 {
    let text = match std::fs::read_to_string(path) {
        Ok(t) => t,
        Err(e) => {
            eprintln!("hv: cannot read {}: {}", path, e);
            return 2;
        }
    };
    let v: Value = match serde_json::from_str(&text) {
        Ok(v) => v,
        Err(e) => {
            eprintln!("hv: bad replay file: {}", e);
            return 2;
        }
    };
    let id = v["property"].as_str().unwrap_or("");
    let wid = v["engine_id"].as_str().unwrap_or(id).to_string();
    if wid.ends_with('T') && !cfg!(feature = "tk") {
        // a tokio-twin scenario: the twin binary replays it
        return match Command::new(tk_exe()).args(["replay", path]).status() {
            Ok(s) => s.code().unwrap_or(2),
            Err(e) => {
                eprintln!("hv: cannot run {}: {}", tk_exe(), e);
                2
            }
        };
    }
    let id = if cfg!(feature = "tk") { wid.as_str() } else { id };
    let prop = match find_prop(id) {
        Some(p) => p,
        None => {
            eprintln!("hv: unknown property in replay file");
            return 2;
        }
    };
    humsim::sim::install_panic_hook();
    let r = prop.execute(&v["scenario"]);
    let rule = v["rule"].as_str().unwrap_or("");
    let sig = v["sig"].as_str().unwrap_or("");
    let want_hash = v["trace_hash"].as_u64().unwrap_or(0);
    println!("hv: replay {} rule={} sig={}", id, rule, sig);
    for x in &r.violations {
        println!("  violation {} {}: {}", x.rule, x.sig, x.detail);
    }
    if let Some(e) = &r.harness_error {
        println!("HARNESS-ERROR: {}", e);
        return 2;
    }
    let reproduced = r.violations.iter().any(|x| x.rule == rule && x.sig == sig);
    println!("hv: trace_hash {} (recorded {}) {}", r.trace_hash, want_hash, if r.trace_hash == want_hash { "identical" } else { "DIFFERENT" });
    if reproduced {
        println!("VIOLATION property={} replay={}", id, path);
        1
    } else {
        println!("hv: violation not reproduced on the current tree");
        0
    }
}

// ---------------------------------------------------------------- determinism selftest

/// Run the first `n` indices of every check twice, in different processes with different
/// pinning, and compare trace hashes, shapes and verdicts.
pub fn selftest_determinism(seed: u64, n: u64, only: Option<String>) -> i32 {
    let mut bad = 0;
    for p in crate::registry() {
        if let Some(o) = &only {
            if o != p.id() {
                continue;
            }
        }
        let mut a = Executor::new(p.id());
        let mut b = Executor::new(p.id());
        let mut mism = 0;
        for idx in 0..n {
            let scn = p.generate(seed, idx, Tier::Quick);
            let scn2 = p.generate(seed, idx, Tier::Quick);
            if scn != scn2 {
                println!("DETERMINISM: {} idx {} generate() differs between calls", p.id(), idx);
                mism += 1;
                continue;
            }
            let ra = a.exec(&scn);
            if idx % 7 == 0 {
                b.fresh();
            }
            let rb = b.exec(&scn);
            let va: Vec<_> = ra.violations.iter().map(|v| (v.rule.clone(), v.sig.clone())).collect();
            let vb: Vec<_> = rb.violations.iter().map(|v| (v.rule.clone(), v.sig.clone())).collect();
            if ra.trace_hash != rb.trace_hash || ra.shapes != rb.shapes || va != vb || ra.decisions != rb.decisions {
                println!(
                    "DETERMINISM: {} idx {} differs: trace {} vs {}, decisions {} vs {}, violations {:?} vs {:?}",
                    p.id(), idx, ra.trace_hash, rb.trace_hash, ra.decisions, rb.decisions, va, vb
                );
                mism += 1;
            }
        }
        println!("selftest determinism {}: {} double runs, {} mismatches", p.id(), n, mism);
        bad += mism;
    }
    if bad > 0 {
        2
    } else {
        0
    }
}
