//! Shared harness types: scenarios are plain JSON data, a run maps a scenario to a RunResult.

use humsim::net::{NetConfig, Seg};
use humsim::rng::Rng;
use humsim::sim::{Config, Strategy};
use serde::{Deserialize, Serialize};
use serde_json::Value;
use std::collections::BTreeMap;

#[derive(Clone, Copy, Debug, PartialEq, Eq)]
pub enum Tier {
    Quick,
    Thorough,
}

impl Tier {
    pub fn name(&self) -> &'static str {
        match self {
            Tier::Quick => "quick",
            Tier::Thorough => "thorough",
        }
    }
}

#[derive(Serialize, Deserialize, Clone, Debug, Default, PartialEq)]
pub struct Violation {
    /// rule id, e.g. "C08/R1"
    pub rule: String,
    /// specific signature of what failed (used to match known findings); no payload data
    pub sig: String,
    /// human-readable detail
    pub detail: String,
}

#[derive(Serialize, Deserialize, Clone, Debug, Default)]
pub struct RunResult {
    pub violations: Vec<Violation>,
    pub trace_hash: u64,
    /// hashes of the distinct non-trivial cases explored by this run (history shapes)
    pub shapes: Vec<u64>,
    /// cases evaluated by this run (1 for a simulation run, many for an enumeration chunk)
    pub evals: u64,
    pub decisions: u64,
    pub virtual_ns: u64,
    pub counters: BTreeMap<String, u64>,
    pub harness_error: Option<String>,
    /// optional written-out sample of what this run looked like
    pub sample: Option<Value>,
}

impl RunResult {
    pub fn violate(&mut self, rule: &str, sig: impl Into<String>, detail: impl Into<String>) {
        let v = Violation { rule: rule.to_string(), sig: sig.into(), detail: detail.into() };
        if !self.violations.iter().any(|x| x.rule == v.rule && x.sig == v.sig) {
            self.violations.push(v);
        }
    }
    pub fn count(&mut self, name: &str, n: u64) {
        *self.counters.entry(name.to_string()).or_insert(0) += n;
    }
    pub fn absorb(&mut self, o: &humsim::sim::Outcome) {
        self.trace_hash = o.trace_hash;
        for l in &o.trace {
            eprintln!("TRACE {}", l);
        }
        self.decisions += o.decisions;
        self.virtual_ns += o.virtual_ns;
        for (k, v) in &o.counters {
            *self.counters.entry(k.clone()).or_insert(0) += v;
        }
        self.count("sim.threads_spawned", o.threads_spawned as u64);
        self.count("sim.panics_recorded", o.panics.len() as u64);
    }
}

/// Simulator parameters carried inside every scenario (so a replay file is self-contained).
#[derive(Serialize, Deserialize, Clone, Debug)]
pub struct SimParams {
    pub seed: u64,
    pub strategy: String,
    #[serde(default = "default_max_decisions")]
    pub max_decisions: u64,
    #[serde(default)]
    pub cpu_tick_max_ns: Option<u64>,
    #[serde(default = "default_epoch")]
    pub epoch_secs: u64,
    #[serde(default)]
    pub short_read_permille: u32,
    #[serde(default)]
    pub short_write_permille: u32,
    #[serde(default)]
    pub eintr_permille: u32,
    #[serde(default)]
    pub strict_unspecified: bool,
    #[serde(default)]
    pub rx_capacity: Option<usize>,
    /// "whole" | "onebyte" | "fixed:k" | "random:n"
    #[serde(default)]
    pub default_seg: Option<String>,
    #[serde(default)]
    pub latency_max_ns: Option<u64>,
    #[serde(default)]
    pub trace: bool,
}

fn default_max_decisions() -> u64 {
    200_000
}
fn default_epoch() -> u64 {
    1_700_000_000
}

pub fn parse_seg(s: &str) -> Seg {
    let p: Vec<&str> = s.split(':').collect();
    match p[0] {
        "onebyte" => Seg::OneByte,
        "fixed" => Seg::Fixed(p.get(1).and_then(|x| x.parse().ok()).unwrap_or(1)),
        "random" => Seg::Random(p.get(1).and_then(|x| x.parse().ok()).unwrap_or(3)),
        _ => Seg::Whole,
    }
}

impl SimParams {
    pub fn basic(seed: u64, strategy: &str) -> Self {
        SimParams {
            seed,
            strategy: strategy.to_string(),
            max_decisions: default_max_decisions(),
            cpu_tick_max_ns: None,
            epoch_secs: default_epoch(),
            short_read_permille: 0,
            short_write_permille: 0,
            eintr_permille: 0,
            strict_unspecified: false,
            rx_capacity: None,
            default_seg: None,
            latency_max_ns: None,
            trace: false,
        }
    }

    /// Swarm-style draw of schedule strategy and network knobs.
    pub fn draw(rng: &mut Rng, net_knobs: bool) -> Self {
        let seed = rng.next_u64() >> 1;
        let strategy = match rng.below(10) {
            0..=3 => "random".to_string(),
            4..=5 => format!("sticky:{}", [500, 900, 990][rng.usize_below(3)]),
            6..=8 => format!("pct:{}:{}", rng.range(1, 3), [200, 1000, 5000][rng.usize_below(3)]),
            _ => "rr".to_string(),
        };
        let mut p = SimParams::basic(seed, &strategy);
        // the epoch: anywhere in 1970..9999, biased to "now"
        p.epoch_secs = if rng.chance(1, 2) { 1_600_000_000 + rng.below(400_000_000) } else { rng.below(253_402_300_000) };
        if net_knobs {
            if rng.chance(1, 3) {
                p.short_read_permille = [100, 500, 900][rng.usize_below(3)];
            }
            if rng.chance(1, 4) {
                p.short_write_permille = [100, 500][rng.usize_below(2)];
            }
            if rng.chance(1, 4) {
                p.default_seg = Some(match rng.below(3) {
                    0 => "onebyte".to_string(),
                    1 => format!("fixed:{}", rng.range(1, 64)),
                    _ => format!("random:{}", rng.range(1, 5)),
                });
            }
            if rng.chance(1, 6) {
                p.rx_capacity = Some([16usize, 256, 4096][rng.usize_below(3)]);
            }
            if rng.chance(1, 5) {
                p.latency_max_ns = Some([1_000u64, 5_000_000, 200_000_000][rng.usize_below(3)]);
            }
        }
        p
    }

    pub fn to_config(&self) -> Config {
        let mut c = Config::default();
        c.seed = self.seed;
        c.strategy = Strategy::parse(&self.strategy).unwrap_or(Strategy::Random);
        c.max_decisions = self.max_decisions;
        if let Some(t) = self.cpu_tick_max_ns {
            c.cpu_tick_max_ns = t;
        }
        c.epoch_secs = self.epoch_secs;
        c.trace = self.trace;
        let mut n = NetConfig::default();
        n.short_read_permille = self.short_read_permille;
        n.short_write_permille = self.short_write_permille;
        n.eintr_permille = self.eintr_permille;
        n.strict_unspecified = self.strict_unspecified;
        if let Some(c) = self.rx_capacity {
            n.rx_capacity = c.max(1);
        }
        if let Some(s) = &self.default_seg {
            n.default_seg = parse_seg(s);
        }
        if let Some(l) = self.latency_max_ns {
            n.latency_max_ns = l.max(n.latency_min_ns);
        }
        c.net = n;
        c
    }
}

/// One property's check.
pub trait Prop: Sync {
    fn id(&self) -> &'static str;
    fn level(&self) -> &'static str;
    /// number of run indices per tier
    fn runs(&self, tier: Tier) -> u64;
    /// scenario for run `idx` (pure function of seed, idx, tier)
    fn generate(&self, seed: u64, idx: u64, tier: Tier) -> Value;
    /// execute a scenario (pure function of the scenario and the code under test)
    fn execute(&self, scenario: &Value) -> RunResult;
    /// how cases are generated / what makes one non-trivial (for the evidence file)
    fn rule(&self) -> &'static str;
    fn assumptions(&self) -> Vec<String>;
    /// fault kinds (counter names) this check expects to fire; a zero is reported loudly
    fn expected_counters(&self) -> Vec<&'static str> {
        vec![]
    }
    /// real-vs-stub table for the evidence
    fn real_vs_stub(&self) -> (Vec<&'static str>, Vec<&'static str>);
    /// cases may kill the process (abort, SIGSEGV): workers announce run and case numbers and
    /// the orchestrator turns a death into a violation attributed to the announced case
    fn isolated(&self) -> bool {
        false
    }
    /// true when `runs(tier)` enumerates a finite space completely
    fn exhaustive(&self, _tier: Tier) -> bool {
        false
    }
}

pub fn run_seed(base: u64, prop: &str, idx: u64) -> u64 {
    humsim::rng::mix(&[base, humsim::rng::hash_str(prop), idx])
}

pub fn fnv64(bytes: &[u8]) -> u64 {
    let mut h = 0xcbf2_9ce4_8422_2325u64;
    for b in bytes {
        h ^= *b as u64;
        h = h.wrapping_mul(0x1000_0000_01b3);
    }
    h
}

pub fn hash_json(v: &Value) -> u64 {
    fnv64(serde_json::to_string(v).unwrap_or_default().as_bytes())
}

/// Printable rendering of bytes for details and samples.
pub fn show_bytes(b: &[u8]) -> String {
    let mut s = String::new();
    for &c in b.iter().take(400) {
        match c {
            b'\r' => s.push_str("\\r"),
            b'\n' => s.push_str("\\n"),
            b'\\' => s.push_str("\\\\"),
            0x20..=0x7e => s.push(c as char),
            _ => s.push_str(&format!("\\x{:02x}", c)),
        }
    }
    if b.len() > 400 {
        s.push_str(&format!("...(+{} bytes)", b.len() - 400));
    }
    s
}

/// Bytes <-> JSON: lossless "latin-1" string mapping keeps scenarios readable and shrinkable.
pub mod bytes_as_string {
    use serde::{Deserialize, Deserializer, Serializer};
    pub fn serialize<S: Serializer>(b: &Vec<u8>, s: S) -> Result<S::Ok, S::Error> {
        let st: String = b.iter().map(|&c| c as char).collect();
        s.serialize_str(&st)
    }
    pub fn deserialize<'de, D: Deserializer<'de>>(d: D) -> Result<Vec<u8>, D::Error> {
        let s = String::deserialize(d)?;
        Ok(s.chars().map(|c| (c as u32 & 0xff) as u8).collect())
    }
}
