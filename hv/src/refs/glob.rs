//! Reference glob matcher: `*` matches any (possibly empty) character sequence, every
//! other character matches only itself.  Plain dynamic programming over chars.

pub fn glob_match(pattern: &str, text: &str) -> bool {
    let p: Vec<char> = pattern.chars().collect();
    let t: Vec<char> = text.chars().collect();
    // dp[j] = pattern[..i] matches text[..j]
    let mut dp = vec![false; t.len() + 1];
    dp[0] = true;
    for &pc in &p {
        if pc == '*' {
            for j in 1..=t.len() {
                dp[j] = dp[j] || dp[j - 1];
            }
        } else {
            for j in (1..=t.len()).rev() {
                dp[j] = dp[j - 1] && t[j - 1] == pc;
            }
            dp[0] = false;
        }
    }
    dp[t.len()]
}

#[cfg(test)]
mod tests {
    use super::glob_match;
    /// Cross-check of Humphrey's matcher against the reference (all patterns up to length 6
    /// over {*,a,b}, all texts up to length 8 over {a,b}); not part of any registered check.
    #[test]
    fn humphrey_matcher_agrees_exhaustively() {
        fn strings(alpha: &[char], max: usize) -> Vec<String> {
            let mut out = vec![String::new()];
            let mut frontier = vec![String::new()];
            for _ in 0..max {
                let mut next = Vec::new();
                for f in &frontier {
                    for a in alpha {
                        let mut s = f.clone();
                        s.push(*a);
                        next.push(s);
                    }
                }
                out.extend(next.iter().cloned());
                frontier = next;
            }
            out
        }
        let pats = strings(&['*', 'a', 'b'], 6);
        let texts = strings(&['a', 'b'], 8);
        let mut bad = 0;
        for p in &pats {
            for t in &texts {
                if humphrey::krauss::wildcard_match(p, t) != glob_match(p, t) {
                    if bad < 5 {
                        eprintln!("disagree: pattern {:?} text {:?} humphrey {}", p, t, humphrey::krauss::wildcard_match(p, t));
                    }
                    bad += 1;
                }
            }
        }
        assert_eq!(bad, 0);
    }

    #[test]
    fn basics() {
        assert!(glob_match("*aab", "aaab"));
        assert!(glob_match("a*b*", "ab"));
        assert!(!glob_match("a*b", "abc"));
        assert!(glob_match("**", ""));
        assert!(!glob_match("", "a"));
    }
}
