//! Reference RFC 6455 frame codec, SHA-1 and Base64 (independent of Humphrey).

#[derive(Clone, Debug, PartialEq, Eq)]
pub struct RFrame {
    pub fin: bool,
    pub rsv: [bool; 3],
    pub opcode: u8,
    pub mask: Option<[u8; 4]>,
    /// application payload (unmasked)
    pub payload: Vec<u8>,
}

pub const OPCODES: [u8; 6] = [0x0, 0x1, 0x2, 0x8, 0x9, 0xA];

impl RFrame {
    pub fn new(opcode: u8, payload: Vec<u8>) -> Self {
        RFrame { fin: true, rsv: [false; 3], opcode, mask: None, payload }
    }
    pub fn masked(opcode: u8, payload: Vec<u8>, key: [u8; 4]) -> Self {
        RFrame { fin: true, rsv: [false; 3], opcode, mask: Some(key), payload }
    }
    /// RFC 6455 §5.2 layout, shortest length form, payload masked on the wire when a key is set.
    pub fn encode(&self) -> Vec<u8> {
        let mut b = Vec::with_capacity(self.payload.len() + 14);
        b.push((self.fin as u8) << 7 | (self.rsv[0] as u8) << 6 | (self.rsv[1] as u8) << 5 | (self.rsv[2] as u8) << 4 | (self.opcode & 0xF));
        let m = if self.mask.is_some() { 0x80 } else { 0 };
        let n = self.payload.len();
        if n < 126 {
            b.push(m | n as u8);
        } else if n < 65536 {
            b.push(m | 126);
            b.extend((n as u16).to_be_bytes());
        } else {
            b.push(m | 127);
            b.extend((n as u64).to_be_bytes());
        }
        match self.mask {
            Some(k) => {
                b.extend(k);
                b.extend(self.payload.iter().enumerate().map(|(i, x)| x ^ k[i % 4]));
            }
            None => b.extend(&self.payload),
        }
        b
    }
}

#[derive(Clone, Debug, PartialEq, Eq)]
pub enum Dec {
    Frame(RFrame, usize),
    NeedMore,
    BadOpcode,
}

/// Decode one frame from the front of `b` (any length form accepted on input).
pub fn decode(b: &[u8]) -> Dec {
    if b.len() < 2 {
        return Dec::NeedMore;
    }
    let opcode = b[0] & 0xF;
    if !OPCODES.contains(&opcode) {
        return Dec::BadOpcode;
    }
    let masked = b[1] & 0x80 != 0;
    let mut p = 2usize;
    let mut len = (b[1] & 0x7F) as u64;
    if len == 126 {
        if b.len() < p + 2 {
            return Dec::NeedMore;
        }
        len = u16::from_be_bytes([b[p], b[p + 1]]) as u64;
        p += 2;
    } else if len == 127 {
        if b.len() < p + 8 {
            return Dec::NeedMore;
        }
        len = u64::from_be_bytes(b[p..p + 8].try_into().unwrap());
        p += 8;
    }
    let key = if masked {
        if b.len() < p + 4 {
            return Dec::NeedMore;
        }
        let k = [b[p], b[p + 1], b[p + 2], b[p + 3]];
        p += 4;
        Some(k)
    } else {
        None
    };
    if len > (b.len() - p) as u64 {
        return Dec::NeedMore;
    }
    let len = len as usize;
    let mut payload = b[p..p + len].to_vec();
    if let Some(k) = key {
        for (i, x) in payload.iter_mut().enumerate() {
            *x ^= k[i % 4];
        }
    }
    Dec::Frame(
        RFrame { fin: b[0] & 0x80 != 0, rsv: [b[0] & 0x40 != 0, b[0] & 0x20 != 0, b[0] & 0x10 != 0], opcode, mask: key, payload },
        p + len,
    )
}

/// Decode a whole byte string as a sequence of frames; Err(offset) at the first problem.
pub fn decode_all(b: &[u8]) -> Result<Vec<RFrame>, (Vec<RFrame>, usize, &'static str)> {
    let mut out = Vec::new();
    let mut p = 0;
    while p < b.len() {
        match decode(&b[p..]) {
            Dec::Frame(f, n) => {
                out.push(f);
                p += n;
            }
            Dec::NeedMore => return Err((out, p, "truncated frame")),
            Dec::BadOpcode => return Err((out, p, "reserved opcode")),
        }
    }
    Ok(out)
}

// ---------------------------------------------------------------- SHA-1 (FIPS 180-1)

pub fn sha1(msg: &[u8]) -> [u8; 20] {
    let mut h: [u32; 5] = [0x67452301, 0xEFCDAB89, 0x98BADCFE, 0x10325476, 0xC3D2E1F0];
    let ml = (msg.len() as u64) * 8;
    let mut m = msg.to_vec();
    m.push(0x80);
    while m.len() % 64 != 56 {
        m.push(0);
    }
    m.extend(ml.to_be_bytes());
    for chunk in m.chunks(64) {
        let mut w = [0u32; 80];
        for i in 0..16 {
            w[i] = u32::from_be_bytes(chunk[4 * i..4 * i + 4].try_into().unwrap());
        }
        for i in 16..80 {
            w[i] = (w[i - 3] ^ w[i - 8] ^ w[i - 14] ^ w[i - 16]).rotate_left(1);
        }
        let (mut a, mut b, mut c, mut d, mut e) = (h[0], h[1], h[2], h[3], h[4]);
        for (i, wi) in w.iter().enumerate() {
            let (f, k) = match i {
                0..=19 => ((b & c) | (!b & d), 0x5A827999u32),
                20..=39 => (b ^ c ^ d, 0x6ED9EBA1),
                40..=59 => ((b & c) | (b & d) | (c & d), 0x8F1BBCDC),
                _ => (b ^ c ^ d, 0xCA62C1D6),
            };
            let t = a.rotate_left(5).wrapping_add(f).wrapping_add(e).wrapping_add(k).wrapping_add(*wi);
            e = d;
            d = c;
            c = b.rotate_left(30);
            b = a;
            a = t;
        }
        h[0] = h[0].wrapping_add(a);
        h[1] = h[1].wrapping_add(b);
        h[2] = h[2].wrapping_add(c);
        h[3] = h[3].wrapping_add(d);
        h[4] = h[4].wrapping_add(e);
    }
    let mut out = [0u8; 20];
    for i in 0..5 {
        out[4 * i..4 * i + 4].copy_from_slice(&h[i].to_be_bytes());
    }
    out
}

pub fn base64(data: &[u8]) -> String {
    const A: &[u8; 64] = b"ABCDEFGHIJKLMNOPQRSTUVWXYZabcdefghijklmnopqrstuvwxyz0123456789+/";
    let mut s = String::new();
    for c in data.chunks(3) {
        let n = (c[0] as u32) << 16 | (*c.get(1).unwrap_or(&0) as u32) << 8 | *c.get(2).unwrap_or(&0) as u32;
        s.push(A[(n >> 18) as usize & 63] as char);
        s.push(A[(n >> 12) as usize & 63] as char);
        s.push(if c.len() > 1 { A[(n >> 6) as usize & 63] as char } else { '=' });
        s.push(if c.len() > 2 { A[n as usize & 63] as char } else { '=' });
    }
    s
}

pub fn accept_key(key: &str) -> String {
    base64(&sha1(format!("{}258EAFA5-E914-47DA-95CA-C5AB0DC85B11", key).as_bytes()))
}

#[cfg(test)]
mod tests {
    #[test]
    fn rfc_example() {
        assert_eq!(super::accept_key("dGhlIHNhbXBsZSBub25jZQ=="), "s3pPLMBiTxaQ9kYGzzhZRbK+xOo=");
    }
}
