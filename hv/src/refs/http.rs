//! Strict reference HTTP/1.x response grammar and helpers (independent of Humphrey).

use std::collections::BTreeMap;

#[derive(Clone, Debug, PartialEq)]
pub struct RespView {
    pub version: String,
    pub status: u16,
    pub reason: String,
    pub headers: Vec<(String, String)>,
    pub body: Vec<u8>,
    /// has a Content-Length, or the status forbids a body
    pub self_delimited: bool,
    pub start: usize,
    pub end: usize,
}

impl RespView {
    pub fn header(&self, name: &str) -> Option<&str> {
        self.headers.iter().find(|(k, _)| k.eq_ignore_ascii_case(name)).map(|(_, v)| v.as_str())
    }
    pub fn header_all(&self, name: &str) -> Vec<&str> {
        self.headers.iter().filter(|(k, _)| k.eq_ignore_ascii_case(name)).map(|(_, v)| v.as_str()).collect()
    }
}

#[derive(Clone, Debug, PartialEq)]
pub enum StreamEnd {
    /// every byte belongs to a complete response
    Clean,
    /// the stream ends inside a response (only an error once EOF was seen)
    Incomplete { at: usize, why: String },
    /// bytes that cannot be part of an HTTP response
    Garbage { at: usize, why: String },
}

fn is_tchar(c: u8) -> bool {
    c.is_ascii_alphanumeric() || b"!#$%&'*+-.^_`|~".contains(&c)
}

fn find_crlf(b: &[u8], from: usize) -> Option<usize> {
    (from..b.len().saturating_sub(1)).find(|&i| b[i] == b'\r' && b[i + 1] == b'\n')
}

/// The 39 status codes Humphrey models, with their registered reason phrases.
pub fn reason_phrase(code: u16) -> Option<&'static str> {
    Some(match code {
        100 => "Continue",
        101 => "Switching Protocols",
        200 => "OK",
        201 => "Created",
        202 => "Accepted",
        203 => "Non-Authoritative Information",
        204 => "No Content",
        205 => "Reset Content",
        206 => "Partial Content",
        300 => "Multiple Choices",
        301 => "Moved Permanently",
        302 => "Found",
        303 => "See Other",
        304 => "Not Modified",
        305 => "Use Proxy",
        307 => "Temporary Redirect",
        400 => "Bad Request",
        401 => "Unauthorized",
        403 => "Forbidden",
        404 => "Not Found",
        405 => "Method Not Allowed",
        406 => "Not Acceptable",
        407 => "Proxy Authentication Required",
        408 => "Request Timeout",
        409 => "Conflict",
        410 => "Gone",
        411 => "Length Required",
        412 => "Precondition Failed",
        413 => "Content Too Large",
        414 => "URI Too Long",
        415 => "Unsupported Media Type",
        416 => "Range Not Satisfiable",
        417 => "Expectation Failed",
        500 => "Internal Server Error",
        501 => "Not Implemented",
        502 => "Bad Gateway",
        503 => "Service Unavailable",
        504 => "Gateway Timeout",
        505 => "HTTP Version Not Supported",
        _ => return None,
    })
}

/// Accepts the registered phrase of RFC 9110 and the older RFC 2616 / 7231 names.
pub fn reason_ok(code: u16, phrase: &str) -> bool {
    if reason_phrase(code) == Some(phrase) {
        return true;
    }
    matches!(
        (code, phrase),
        (413, "Payload Too Large") | (413, "Request Entity Too Large") | (414, "Request-URI Too Long") | (416, "Requested Range Not Satisfiable")
    )
}

pub fn no_body_status(code: u16) -> bool {
    (100..200).contains(&code) || code == 204 || code == 304
}

/// Parse one response starting at `pos`.  Ok(None) = need more bytes.
pub fn parse_one(b: &[u8], pos: usize, eof: bool) -> Result<Option<RespView>, (usize, String)> {
    let sl_end = match find_crlf(b, pos) {
        Some(e) => e,
        None => {
            // even incomplete, the prefix must look like a status line
            let have = &b[pos..];
            let want = b"HTTP/1.";
            let n = have.len().min(want.len());
            if have[..n] != want[..n] {
                return Err((pos, "status line does not start with HTTP/1.".into()));
            }
            if have.len() > 256 {
                return Err((pos, "status line longer than 256 bytes without CRLF".into()));
            }
            return Ok(None);
        }
    };
    let line = &b[pos..sl_end];
    let line_s = std::str::from_utf8(line).map_err(|_| (pos, "status line is not UTF-8".to_string()))?;
    let mut it = line_s.splitn(3, ' ');
    let version = it.next().unwrap_or("");
    let code = it.next().ok_or((pos, "status line without status code".to_string()))?;
    let reason = it.next().ok_or((pos, "status line without reason phrase".to_string()))?;
    if version != "HTTP/1.1" && version != "HTTP/1.0" {
        return Err((pos, format!("bad HTTP version {:?}", version)));
    }
    if code.len() != 3 || !code.bytes().all(|c| c.is_ascii_digit()) {
        return Err((pos, format!("bad status code {:?}", code)));
    }
    let status: u16 = code.parse().unwrap();
    if reason.bytes().any(|c| c == b'\r' || c == b'\n') {
        return Err((pos, "CR/LF inside reason phrase".into()));
    }
    let mut headers = Vec::new();
    let mut p = sl_end + 2;
    loop {
        let e = match find_crlf(b, p) {
            Some(e) => e,
            None => {
                if b.len() - p > 70_000 {
                    return Err((p, "header line longer than 70000 bytes without CRLF".into()));
                }
                return Ok(None);
            }
        };
        if e == p {
            p += 2;
            break;
        }
        let l = &b[p..e];
        let colon = l.iter().position(|&c| c == b':').ok_or((p, format!("header line without colon: {:?}", String::from_utf8_lossy(l))))?;
        let name = &l[..colon];
        if name.is_empty() || !name.iter().all(|&c| is_tchar(c)) {
            return Err((p, format!("header name is not a token: {:?}", String::from_utf8_lossy(name))));
        }
        let val = &l[colon + 1..];
        if val.iter().any(|&c| c == b'\r' || c == b'\n' || c == 0) {
            return Err((p, "CR/LF/NUL inside header value".into()));
        }
        let val_s = String::from_utf8_lossy(val).trim_matches(|c| c == ' ' || c == '\t').to_string();
        headers.push((String::from_utf8_lossy(name).to_string(), val_s));
        p = e + 2;
    }
    let cl: Vec<&String> = headers.iter().filter(|(k, _)| k.eq_ignore_ascii_case("content-length")).map(|(_, v)| v).collect();
    let (body, end, self_delimited) = if no_body_status(status) {
        (Vec::new(), p, true)
    } else if let Some(v) = cl.first() {
        if cl.iter().any(|x| x != v) {
            return Err((p, "conflicting Content-Length headers".into()));
        }
        let n: usize = v.parse().map_err(|_| (p, format!("Content-Length is not a number: {:?}", v)))?;
        if b.len() < p + n {
            if eof {
                return Err((p, format!("body shorter than Content-Length: have {} of {}", b.len() - p, n)));
            }
            return Ok(None);
        }
        (b[p..p + n].to_vec(), p + n, true)
    } else {
        if !eof {
            return Ok(None);
        }
        (b[p..].to_vec(), b.len(), false)
    };
    Ok(Some(RespView { version: version.into(), status, reason: reason.into(), headers, body, self_delimited, start: pos, end }))
}

/// Parse a whole received stream as a sequence of responses.  Exactly one CRLF is
/// tolerated after a non-empty Content-Length body (Humphrey's serialiser appends it and
/// `test_response` pins that); nothing else.
pub fn parse_stream(b: &[u8], eof: bool) -> (Vec<RespView>, StreamEnd) {
    let mut out = Vec::new();
    let mut pos = 0;
    let mut prev_nonempty_body = false;
    loop {
        if prev_nonempty_body && b.len() >= pos + 2 && &b[pos..pos + 2] == b"\r\n" {
            pos += 2;
        } else if prev_nonempty_body && b.len() == pos + 1 && b[pos] == b'\r' {
            // half of the tolerated CRLF (the reader stopped before the LF arrived)
            return (out, if eof { StreamEnd::Clean } else { StreamEnd::Incomplete { at: pos, why: "half of the tolerated CRLF".into() } });
        }
        prev_nonempty_body = false;
        if pos >= b.len() {
            return (out, StreamEnd::Clean);
        }
        match parse_one(b, pos, eof) {
            Ok(Some(r)) => {
                pos = r.end;
                prev_nonempty_body = r.self_delimited && !r.body.is_empty();
                out.push(r);
            }
            Ok(None) => return (out, StreamEnd::Incomplete { at: pos, why: "stream ends inside a response".into() }),
            Err((at, why)) => return (out, StreamEnd::Garbage { at, why }),
        }
    }
}

/// Body of a close-delimited response with the one tolerated trailing CRLF removed.
pub fn body_without_tolerated_crlf(r: &RespView) -> &[u8] {
    if !r.self_delimited && r.body.len() >= 2 && r.body.ends_with(b"\r\n") {
        &r.body[..r.body.len() - 2]
    } else {
        &r.body
    }
}

// ---------------------------------------------------------------- dates

const DAYS: [&str; 7] = ["Thu", "Fri", "Sat", "Sun", "Mon", "Tue", "Wed"];
const MONTHS: [&str; 12] = ["Jan", "Feb", "Mar", "Apr", "May", "Jun", "Jul", "Aug", "Sep", "Oct", "Nov", "Dec"];

/// IMF-fixdate for a Unix timestamp (independent civil-from-days, Hinnant's algorithm).
pub fn imf_fixdate(ts: u64) -> String {
    let days = ts / 86_400;
    let secs = ts % 86_400;
    let z = days as i64 + 719_468;
    let era = z.div_euclid(146_097);
    let doe = z.rem_euclid(146_097);
    let yoe = (doe - doe / 1460 + doe / 36_524 - doe / 146_096) / 365;
    let y = yoe + era * 400;
    let doy = doe - (365 * yoe + yoe / 4 - yoe / 100);
    let mp = (5 * doy + 2) / 153;
    let d = doy - (153 * mp + 2) / 5 + 1;
    let m = if mp < 10 { mp + 3 } else { mp - 9 };
    let y = if m <= 2 { y + 1 } else { y };
    format!(
        "{}, {:02} {} {:04} {:02}:{:02}:{:02} GMT",
        DAYS[(days % 7) as usize],
        d,
        MONTHS[(m - 1) as usize],
        y,
        secs / 3600,
        (secs % 3600) / 60,
        secs % 60
    )
}

// ---------------------------------------------------------------- request model

#[derive(Clone, Debug, Default)]
pub struct ReqModel {
    pub method: String,
    pub target: String,
    pub version: String,
    pub headers: Vec<(String, String)>,
    pub body: Option<Vec<u8>>,
}

impl ReqModel {
    pub fn render(&self) -> Vec<u8> {
        let mut b = Vec::new();
        b.extend(format!("{} {} {}\r\n", self.method, self.target, self.version).bytes());
        for (k, v) in &self.headers {
            b.extend(k.bytes());
            b.extend(b": ");
            b.extend(v.bytes());
            b.extend(b"\r\n");
        }
        b.extend(b"\r\n");
        if let Some(body) = &self.body {
            b.extend(body);
        }
        b
    }
}

pub fn header_map(h: &[(String, String)]) -> BTreeMap<String, Vec<String>> {
    let mut m: BTreeMap<String, Vec<String>> = BTreeMap::new();
    for (k, v) in h {
        m.entry(k.to_ascii_lowercase()).or_default().push(v.clone());
    }
    m
}

// ---------------------------------------------------------------- response model

pub const STATUS_CODES: [u16; 39] = [
    100, 101, 200, 201, 202, 203, 204, 205, 206, 300, 301, 302, 303, 304, 305, 307, 400, 401, 403, 404, 405, 406, 407, 408, 409, 410, 411, 412, 413, 414, 415, 416, 417, 500, 501, 502, 503, 504, 505,
];

#[derive(Clone, Debug, PartialEq, serde::Serialize, serde::Deserialize)]
pub struct RespModel {
    pub version: String,
    pub status: u16,
    /// headers other than Content-Length / Transfer-Encoding
    pub headers: Vec<(String, String)>,
    #[serde(with = "crate::common::bytes_as_string")]
    pub body: Vec<u8>,
    /// "cl" | "chunked" | "close" | "none"
    pub framing: String,
    /// chunk sizes (sum <= body len; remainder is a last chunk)
    #[serde(default)]
    pub chunks: Vec<usize>,
    #[serde(default)]
    pub hex_upper: bool,
    /// spelling of the framing header's name: 0 canonical, 1 lower case, 2 upper case, 3 only the
    /// first letter capital (field names are case-insensitive)
    #[serde(default)]
    pub name_style: u8,
    /// what follows the colon of every header line: 0 one space, 1 nothing, 2 a tab, 3 two spaces
    /// (optional whitespace, RFC 7230 3.2)
    #[serde(default)]
    pub sep_style: u8,
    /// further spellings a conforming server may use (bit set): 1 trailer fields after the last
    /// chunk; 2 chunk extensions on the size lines; 4 the transfer coding written `Chunked` /
    /// `CHUNKED` (coding names are case-insensitive); 8 optional whitespace after the value of the
    /// framing header; 16 a 304 response that carries the Content-Length of the representation it
    /// does not send (RFC 7230 3.3.2)
    #[serde(default)]
    pub wire_style: u8,
}

impl RespModel {
    fn ws(&self, bit: u8) -> bool {
        self.wire_style & bit != 0
    }
    fn value_tail(&self) -> &'static str {
        if self.ws(8) { [" ", "\t", "  "][(self.body.len() % 3) as usize] } else { "" }
    }
    /// Number of bytes at the end of a chunked message that follow the last-chunk line (trailer
    /// fields and the final CRLF): once everything before them has arrived, the content is complete.
    pub fn bytes_after_last_chunk_line(&self) -> usize {
        2 + if self.ws(1) { b"X-Checksum: 9f3a\r\nX-Trailer-Two: b\r\n".len() } else { 0 }
    }
    /// the Content-Length a 304 carries under wire style 16
    pub fn cl_on_304(&self) -> Option<usize> {
        if self.status == 304 && self.ws(16) { Some(1234 + self.headers.len()) } else { None }
    }
    fn styled(&self, name: &str) -> String {
        match self.name_style % 4 {
            1 => name.to_ascii_lowercase(),
            2 => name.to_ascii_uppercase(),
            3 => {
                let l = name.to_ascii_lowercase();
                let mut c = l.chars();
                c.next().map(|f| f.to_ascii_uppercase().to_string() + c.as_str()).unwrap_or_default()
            }
            _ => name.to_string(),
        }
    }
    fn sep(&self) -> &'static str {
        [": ", ":", ":\t", ":  "][(self.sep_style % 4) as usize]
    }
    pub fn effective_framing(&self) -> &str {
        if no_body_status(self.status) {
            "none"
        } else {
            self.framing.as_str()
        }
    }
    pub fn effective_body(&self) -> &[u8] {
        if self.effective_framing() == "none" {
            &[]
        } else {
            &self.body
        }
    }
    pub fn render(&self) -> Vec<u8> {
        let reason = reason_phrase(self.status).unwrap_or("Unknown");
        let mut b = format!("{} {} {}\r\n", self.version, self.status, reason).into_bytes();
        for (k, v) in &self.headers {
            b.extend(format!("{}{}{}\r\n", k, self.sep(), v).bytes());
        }
        match self.effective_framing() {
            "cl" => {
                b.extend(format!("{}{}{}{}\r\n\r\n", self.styled("Content-Length"), self.sep(), self.body.len(), self.value_tail()).bytes());
                b.extend(&self.body);
            }
            "chunked" => {
                let coding = if self.ws(4) { ["Chunked", "CHUNKED"][self.body.len() % 2] } else { "chunked" };
                b.extend(format!("{}{}{}{}\r\n\r\n", self.styled("Transfer-Encoding"), self.sep(), coding, self.value_tail()).bytes());
                let mut pos = 0;
                let mut sizes: Vec<usize> = Vec::new();
                for &c in &self.chunks {
                    if c == 0 || pos + c > self.body.len() {
                        continue;
                    }
                    sizes.push(c);
                    pos += c;
                }
                if pos < self.body.len() {
                    sizes.push(self.body.len() - pos);
                }
                let mut p = 0;
                for s in sizes {
                    let hex = if self.hex_upper { format!("{:X}", s) } else { format!("{:x}", s) };
                    b.extend(hex.bytes());
                    if self.ws(2) {
                        b.extend([";ext=1", ";x", ";name=\"v\""][(p + s) % 3].bytes());
                    }
                    b.extend(b"\r\n");
                    b.extend(&self.body[p..p + s]);
                    b.extend(b"\r\n");
                    p += s;
                }
                if self.ws(2) {
                    b.extend(b"0;last\r\n");
                } else {
                    b.extend(b"0\r\n");
                }
                if self.ws(1) {
                    b.extend(b"X-Checksum: 9f3a\r\nX-Trailer-Two: b\r\n");
                }
                b.extend(b"\r\n");
            }
            "close" => {
                b.extend(b"\r\n");
                b.extend(&self.body);
            }
            _ => {
                if let Some(n) = self.cl_on_304() {
                    b.extend(format!("{}{}{}\r\n", self.styled("Content-Length"), self.sep(), n).bytes());
                }
                b.extend(b"\r\n")
            }
        }
        b
    }
    /// Headers a faithful recipient reports (chunked re-expressed as Content-Length).
    pub fn expected_headers(&self) -> Vec<(String, String)> {
        let mut h: Vec<(String, String)> = self.headers.iter().map(|(k, v)| (k.to_ascii_lowercase(), v.clone())).collect();
        match self.effective_framing() {
            "cl" | "chunked" => h.push(("content-length".into(), format!("{}", self.body.len()))),
            _ => {
                if let Some(n) = self.cl_on_304() {
                    h.push(("content-length".into(), format!("{}", n)));
                }
            }
        }
        h.sort();
        h
    }
}

pub fn gen_resp_model(rng: &mut humsim::rng::Rng, max_body: usize) -> RespModel {
    const NAMES: [&str; 10] = ["Server", "Content-Type", "Cache-Control", "X-Custom", "x-custom", "ETag", "Via", "Set-Cookie", "Set-Cookie", "Location"];
    let status = STATUS_CODES[rng.usize_below(STATUS_CODES.len())];
    let nh = rng.range(0, 8) as usize;
    let mut headers = Vec::new();
    for _ in 0..nh {
        let name = NAMES[rng.usize_below(NAMES.len())];
        let vlen = rng.range(1, 24) as usize;
        let mut v: String = (0..vlen).map(|_| (0x21 + rng.below(0x5e) as u8) as char).collect();
        if rng.chance(1, 6) {
            v.push_str(" \u{e9}x");
        }
        headers.push((name.to_string(), v.trim().to_string()));
    }
    let blen = match rng.below(8) {
        0 => 0,
        1..=5 => rng.range(1, 100) as usize,
        6 => rng.range(8000, 9000) as usize,
        _ => rng.usize_below(max_body.max(1)),
    };
    let body = rng.bytes(blen);
    let framing = ["cl", "cl", "chunked", "chunked", "close", "none"][rng.usize_below(6)].to_string();
    let mut chunks = Vec::new();
    if framing == "chunked" && blen > 0 {
        let k = rng.range(1, 6);
        for _ in 0..k {
            chunks.push(1 + rng.usize_below(blen));
        }
    }
    RespModel { version: if rng.chance(1, 5) { "HTTP/1.0".into() } else { "HTTP/1.1".into() }, status, headers, body: if framing == "none" { vec![] } else { body }, framing, chunks, hex_upper: rng.chance(1, 2), name_style: if rng.chance(1, 2) { rng.below(4) as u8 } else { 0 }, sep_style: if rng.chance(1, 3) { rng.below(4) as u8 } else { 0 }, wire_style: 0 }.with_wire_style(rng)
}

impl RespModel {
    /// (a separate draw, so that the older dimensions keep their values)
    fn with_wire_style(mut self, rng: &mut humsim::rng::Rng) -> RespModel {
        let mut r = humsim::rng::Rng::new(humsim::rng::mix(&[rng.next_u64(), 0x4E5F_0001]));
        if r.chance(1, 3) {
            self.wire_style = [1u8, 2, 4, 8, 16, 1 | 2, 4 | 8, 31][r.usize_below(8)];
        }
        self
    }
}
