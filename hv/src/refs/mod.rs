//! Reference models written independently of Humphrey.
pub mod http;
