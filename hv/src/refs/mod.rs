//! Reference models written independently of Humphrey.
pub mod http;
pub mod ws;
