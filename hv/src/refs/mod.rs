//! Reference models written independently of Humphrey.
pub mod glob;
pub mod http;
pub mod ws;
