//! Reference models written independently of Humphrey.
