//! C17 — passwords and session tokens authenticate exactly their owner, only while valid.
//!
//! The real `AuthProvider<Vec<User>>` (Argon2, OsRng tokens) runs with the *virtual wall
//! clock* under `Session::{create, valid, refresh}`, so expiry boundaries (expiry-1s,
//! =expiry, expiry+1s) are reachable; authenticated-route requests go through the real App
//! on the simulated network.  One driver thread: the property quantifies over histories.

use crate::common::*;
use crate::refs::http::ReqModel;
use crate::simhttp::*;
use humphrey::http::{Request, Response, StatusCode};
use humphrey::App;
use humphrey_auth::app::{AuthApp, AuthState};
use humphrey_auth::config::AuthConfig;
use humphrey_auth::user::User;
use humphrey_auth::AuthProvider;
use humsim::rng::Rng;
use humsim::sim;
use serde::{Deserialize, Serialize};
use serde_json::{json, Value};
use std::collections::BTreeSet;
use std::sync::{Arc, Mutex, MutexGuard};
use std::time::Duration;

pub struct C17;

#[derive(Serialize, Deserialize, Clone, Debug)]
pub struct Op {
    /// create_user remove_user verify create_session refresh invalidate invalidate_user get_uid route advance
    pub op: String,
    /// user slot (index into the list of users ever created, modulo)
    #[serde(default)]
    pub u: usize,
    /// verify: "right" "wrong" "other" "unknown-uid" "empty" "unknown-uid-empty" "empty-uid" "prefix" "case"; create_user: password index
    #[serde(default)]
    pub pw: String,
    /// create_session: "default" | "zero" | "long"
    #[serde(default)]
    pub lifetime: String,
    /// token slot (index into all tokens ever issued, modulo); usize::MAX-ish = garbage token
    #[serde(default)]
    pub tok: usize,
    #[serde(default)]
    pub garbage_token: bool,
    /// advance: "to-expiry-minus-1" "to-expiry" "to-expiry-plus-1" "far" "1s"
    #[serde(default)]
    pub jump: String,
}

#[derive(Serialize, Deserialize, Clone, Debug)]
pub struct Scn {
    pub sim: SimParams,
    pub pepper: Option<String>,
    pub default_lifetime: u64,
    pub refresh_lifetime: u64,
    pub ops: Vec<Op>,
}

struct St {
    auth: Mutex<AuthProvider<Vec<User>>>,
}
impl AuthState<Vec<User>> for St {
    fn auth_provider(&self) -> MutexGuard<AuthProvider<Vec<User>>> {
        self.auth.lock().unwrap()
    }
}

#[derive(Clone, Debug)]
struct MUser {
    uid: String,
    pw: String,
    alive: bool,
    session: Option<(String, u64)>,
}

fn now_secs() -> u64 {
    (sim::wall_ns().unwrap_or(0) / 1_000_000_000) as u64
}

impl Prop for C17 {
    fn id(&self) -> &'static str {
        "C17"
    }
    fn level(&self) -> &'static str {
        "exploration"
    }
    fn runs(&self, tier: Tier) -> u64 {
        match tier {
            Tier::Quick => 1500,
            Tier::Thorough => 60_000,
        }
    }
    fn rule(&self) -> &'static str {
        "One case = one history of up to 60 operations over 1..5 users {create_user, remove_user, verify(right / wrong / other user's / a prefix / other case / the empty password, for live, removed, unknown and empty uids), create_session(default / lifetime 0 / long / a burst of 40 with lifetime 0), refresh, invalidate by token, invalidate by user, get_uid_by_token, authenticated-route request over the simulated network with a valid / stale / absent cookie, advance the virtual wall clock to expiry-1s / expiry / expiry+1s / far future}, without a pepper or with one of 7, 32, 64 or about 100 bytes; passwords are short, long pass phrases differing only in their last character (70..120 bytes), runs of one letter at lengths around 32 and 64, or non-ASCII; checked against a reference model after every step. Distinct = distinct sequence of (operation, outcome); non-trivial = at least one session created and the clock moved across or onto an expiry boundary."
    }
    fn assumptions(&self) -> Vec<String> {
        vec![
            "UNIX_EPOCH.elapsed() in humphrey-auth reads the virtual wall clock".into(),
            "Argon2 is real; OsRng and Uuid::new_v4 read the run's entropy stream (humsim::rand), so uids, salts and tokens are a function of the seed and every failure replays".into(),
            "single driver thread: the property quantifies over histories, not schedules".into(),
        ]
    }
    fn expected_counters(&self) -> Vec<&'static str> {
        vec!["c17.ops", "c17.clock_to_expiry_boundary", "c17.refresh_on_expired", "c17.refresh_on_live", "c17.lifetime_zero_sessions", "c17.route_requests", "c17.verify_other_users_password", "c17.removed_user_token_used", "c17.with_pepper", "c17.burst_of_40_sessions", "clock_jump"]
    }
    fn real_vs_stub(&self) -> (Vec<&'static str>, Vec<&'static str>) {
        (vec!["humphrey_auth::{AuthProvider, Session, User, AuthDatabase for Vec<User>, with_auth_route}, Argon2, OsRng, humphrey::App for route requests"], vec!["wall clock (virtual), TCP (humsim::net)"])
    }

    fn generate(&self, seed: u64, idx: u64, tier: Tier) -> Value {
        let mut rng = Rng::new(run_seed(seed, "C17", idx));
        // short passwords, long pass phrases that differ only in their last characters (so that
        // anything that looks at a bounded prefix confuses them), and non-ASCII ones
        fn gen_pw(rng: &mut Rng) -> String {
            let k = rng.below(3);
            match rng.below(20) {
                0..=9 => format!("pw{}", k),
                10..=13 => format!("correct horse battery staple, correct horse battery staple, and once more: {}", k),
                14..=16 => format!("{}{}", "a".repeat([24usize, 31, 32, 56, 57, 63, 64, 120][rng.usize_below(8)]), k),
                _ => format!("p\u{e4}ssw\u{f6}rd-\u{6771}\u{4eac}-{}", k),
            }
        }
        let nops = rng.range(4, if tier == Tier::Quick { 40 } else { 60 }) as usize;
        let mut ops = vec![Op { op: "create_user".into(), u: 0, pw: gen_pw(&mut rng), lifetime: String::new(), tok: 0, garbage_token: false, jump: String::new() }];
        let mut users = 1;
        for _ in 0..nops {
            let r = rng.below(100);
            let mut o = Op { op: String::new(), u: rng.usize_below(6), pw: String::new(), lifetime: String::new(), tok: rng.usize_below(8), garbage_token: rng.chance(1, 10), jump: String::new() };
            if r < 6 && users < 5 {
                o.op = "create_user".into();
                o.pw = gen_pw(&mut rng);
                users += 1;
            } else if r < 10 {
                o.op = "remove_user".into();
            } else if r < 18 {
                o.op = "verify".into();
                o.pw = ["right", "wrong", "other", "unknown-uid", "empty", "unknown-uid-empty", "empty-uid", "prefix", "case"][rng.usize_below(9)].into();
            } else if r < 40 {
                o.op = "create_session".into();
                o.lifetime = ["default", "default", "zero", "long"][rng.usize_below(4)].into();
                if Rng::new(humsim::rng::mix(&[rng.next_u64(), 0xC17_0002])).chance(1, 8) {
                    o.lifetime = "zero-burst".into();
                }
            } else if r < 55 {
                o.op = "refresh".into();
            } else if r < 60 {
                o.op = "invalidate".into();
            } else if r < 64 {
                o.op = "invalidate_user".into();
            } else if r < 76 {
                o.op = "get_uid".into();
            } else if r < 82 {
                o.op = "route".into();
            } else {
                o.op = "advance".into();
                o.jump = ["to-expiry-minus-1", "to-expiry", "to-expiry-plus-1", "far", "1s", "to-expiry"][rng.usize_below(6)].into();
            }
            ops.push(o);
        }
        let mut sim = SimParams::draw(&mut rng, false);
        sim.strategy = "random".into();
        let scn = Scn {
            sim,
            pepper: match rng.below(10) {
                0..=3 => None,
                4..=6 => Some("pepper!".into()),
                7 => Some("0123456789abcdef".repeat(2)),
                8 => Some("0123456789abcdef".repeat(4)),
                _ => Some(format!("{}-{}", "long pepper ".repeat(8), rng.below(100))),
            },
            default_lifetime: [60u64, 3600, 5][rng.usize_below(3)],
            refresh_lifetime: [60u64, 3600, 5][rng.usize_below(3)],
            ops,
        };
        serde_json::to_value(scn).unwrap()
    }

    fn execute(&self, scenario: &Value) -> RunResult {
        let mut rr = RunResult { evals: 1, ..Default::default() };
        let scn: Scn = match serde_json::from_value(scenario.clone()) {
            Ok(s) => s,
            Err(e) => {
                rr.harness_error = Some(format!("bad scenario: {}", e));
                return rr;
            }
        };
        let out: Arc<Mutex<(Vec<Violation>, Vec<String>, Vec<(String, u64)>)>> = Arc::new(Mutex::new((vec![], vec![], vec![])));
        let out2 = out.clone();
        let mut scn2 = scn.clone();
        // a "zero-burst" is 40 session creations with lifetime 0 in a row for one user (each one
        // has expired by the time the next is asked for): many tokens issued within one history
        scn2.ops = scn2.ops.iter().flat_map(|o| if o.op == "create_session" && o.lifetime == "zero-burst" { (0..40).map(|_| Op { lifetime: "zero".into(), ..o.clone() }).collect::<Vec<_>>() } else { vec![o.clone()] }).collect();
        if scn.ops.iter().any(|o| o.lifetime == "zero-burst") {
            rr.count("c17.burst_of_40_sessions", 1);
        }
        let outcome = sim::run(scn.sim.to_config(), move || {
            let scn = scn2;
            let mut cfg = AuthConfig::default().with_default_lifetime(scn.default_lifetime).with_default_refresh_lifetime(scn.refresh_lifetime);
            if let Some(p) = &scn.pepper {
                cfg = cfg.with_pepper(p);
            }
            let state = St { auth: Mutex::new(AuthProvider::new(Vec::new()).with_config(cfg)) };
            let app: App<St> = App::new_with_config(1, state).with_auth_route("/me", |_r: Request, _s: Arc<St>, uid: String| Response::new(StatusCode::OK, uid));
            let st = app.get_state();
            let addr: humsim::net::SocketAddr = "127.0.0.1:8081".parse().unwrap();
            humsim::thread::spawn(move || {
                let _ = app.run(addr);
            });
            let mut users: Vec<MUser> = Vec::new();
            let mut tokens: Vec<String> = Vec::new();
            let mut seen_tokens: BTreeSet<String> = BTreeSet::new();
            let mut viol: Vec<Violation> = Vec::new();
            let mut hist: Vec<String> = Vec::new();
            let mut counters: Vec<(String, u64)> = Vec::new();
            let mut bump = |k: &str| counters.push((k.to_string(), 1));
            if scn.pepper.is_some() {
                bump("c17.with_pepper");
            }
            let mut v = |rule: &str, sig: &str, detail: String| {
                if !viol.iter().any(|x: &Violation| x.rule == rule && x.sig == sig) {
                    viol.push(Violation { rule: rule.into(), sig: sig.into(), detail });
                }
            };
            for (step, o) in scn.ops.iter().enumerate() {
                bump("c17.ops");
                let now = now_secs();
                let live = |u: &MUser, now: u64| u.alive && u.session.as_ref().map(|s| now < s.1).unwrap_or(false);
                // the user a token authenticates right now, per the model
                let owner_of = |users: &Vec<MUser>, tok: &str, now: u64| users.iter().find(|u| u.alive && u.session.as_ref().map(|s| s.0 == tok && now < s.1).unwrap_or(false)).map(|u| u.uid.clone());
                let pick_token = |tokens: &Vec<String>| -> String {
                    if o.garbage_token || tokens.is_empty() {
                        // never issued: all zeros, or a near miss of a token that was issued (its
                        // upper-case spelling, a prefix, itself with a trailing space, the empty string)
                        match (tokens.get(o.tok % tokens.len().max(1)), step % 5) {
                            (Some(t), 1) if t.to_ascii_uppercase() != *t => t.to_ascii_uppercase(),
                            (Some(t), 2) => t[..t.len().min(63)].to_string(),
                            (Some(t), 3) => format!("{} ", t),
                            (_, 4) => String::new(),
                            _ => "0".repeat(64),
                        }
                    } else {
                        tokens[o.tok % tokens.len()].clone()
                    }
                };
                match o.op.as_str() {
                    "create_user" => {
                        let pw = if o.pw.is_empty() { "pw0".to_string() } else { o.pw.clone() };
                        let r = st.auth.lock().unwrap().create_user(&pw);
                        match r {
                            Ok(uid) => {
                                if users.iter().any(|u| u.uid == uid) {
                                    v("C17/R1", "duplicate-uid", format!("step {}: create_user returned an existing uid", step));
                                }
                                users.push(MUser { uid, pw, alive: true, session: None });
                                hist.push("create_user:ok".into());
                            }
                            Err(e) => {
                                v("C17/R1", "create-user-failed", format!("step {}: create_user failed: {:?}", step, e));
                                hist.push("create_user:err".into());
                            }
                        }
                    }
                    _ if users.is_empty() => {}
                    "remove_user" => {
                        let i = o.u % users.len();
                        let r = st.auth.lock().unwrap().remove_user(&users[i].uid);
                        if r.is_ok() != users[i].alive {
                            v("C17/R1", "remove-user-result", format!("step {}: remove_user returned {:?} for a user that {}", step, r.is_ok(), if users[i].alive { "exists" } else { "was already removed" }));
                        }
                        users[i].alive = false;
                        users[i].session = None;
                        hist.push(format!("remove_user:{}", r.is_ok()));
                    }
                    "verify" => {
                        let i = o.u % users.len();
                        let (uid, pw, want) = match o.pw.as_str() {
                            "right" => (users[i].uid.clone(), users[i].pw.clone(), users[i].alive),
                            "other" => {
                                let j = (i + 1) % users.len();
                                bump("c17.verify_other_users_password");
                                let pw = format!("{}-of-{}", users[j].pw, j);
                                // another user's *distinct* password never verifies; equal passwords do
                                (users[i].uid.clone(), if users[j].pw != users[i].pw { users[j].pw.clone() } else { pw }, false)
                            }
                            "unknown-uid" => ("00000000-0000-4000-8000-000000000000".to_string(), users[i].pw.clone(), false),
                            // the empty password (no user is created with it), for a known user (alive
                            // or removed), for a uid nobody has, and with the empty uid
                            "empty" => (users[i].uid.clone(), String::new(), false),
                            "unknown-uid-empty" => ("00000000-0000-4000-8000-000000000000".to_string(), String::new(), false),
                            "empty-uid" => (String::new(), if step % 2 == 0 { String::new() } else { users[i].pw.clone() }, false),
                            // a proper prefix of the right password, and the right password in another case
                            "prefix" => (users[i].uid.clone(), { let n = users[i].pw.chars().count(); users[i].pw.chars().take(n.saturating_sub(1)).collect::<String>() }, false),
                            "case" => (users[i].uid.clone(), users[i].pw.to_ascii_uppercase(), false),
                            _ => (users[i].uid.clone(), format!("{}x", users[i].pw), false),
                        };
                        let got = st.auth.lock().unwrap().verify(&uid, &pw);
                        if got != want {
                            v("C17/R1", &format!("verify-{}:{}", o.pw, if got { "accepted" } else { "rejected" }), format!("step {}: verify({}) returned {} but the model says {}", step, o.pw, got, want));
                        }
                        hist.push(format!("verify:{}:{}", o.pw, got));
                    }
                    "create_session" => {
                        let i = o.u % users.len();
                        let (lt, r) = match o.lifetime.as_str() {
                            "zero" => (0, st.auth.lock().unwrap().create_session_with_lifetime(&users[i].uid, 0)),
                            "long" => (1_000_000, st.auth.lock().unwrap().create_session_with_lifetime(&users[i].uid, 1_000_000)),
                            _ => (scn.default_lifetime, st.auth.lock().unwrap().create_session(&users[i].uid)),
                        };
                        let want_ok = users[i].alive && !live(&users[i], now);
                        match r {
                            Ok(tok) => {
                                if !want_ok {
                                    v("C17/R3", if users[i].alive { "second-live-session" } else { "session-for-removed-user" }, format!("step {}: create_session succeeded although {}", step, if users[i].alive { "the user already has a live session" } else { "the user was removed" }));
                                }
                                if tok.len() != 64 || !tok.bytes().all(|c| c.is_ascii_hexdigit()) {
                                    v("C17/R4", "token-format", format!("step {}: token is not 64 hex digits (len {})", step, tok.len()));
                                }
                                if !seen_tokens.insert(tok.clone()) {
                                    v("C17/R4", "token-repeated", format!("step {}: a token was issued twice", step));
                                }
                                if lt == 0 {
                                    bump("c17.lifetime_zero_sessions");
                                }
                                users[i].session = Some((tok.clone(), now + lt));
                                tokens.push(tok);
                                hist.push(format!("create_session:{}:ok", o.lifetime));
                            }
                            Err(e) => {
                                if want_ok {
                                    v("C17/R3", "create-session-refused", format!("step {}: create_session failed with {:?} although the user exists and has no live session", step, e));
                                }
                                hist.push(format!("create_session:{}:err", o.lifetime));
                            }
                        }
                    }
                    "refresh" => {
                        let tok = pick_token(&tokens);
                        let owner = owner_of(&users, &tok, now);
                        let known_dead = owner.is_none();
                        let r = st.auth.lock().unwrap().refresh_session(&tok);
                        if owner.is_some() {
                            bump("c17.refresh_on_live");
                        } else if users.iter().any(|u| u.session.as_ref().map(|s| s.0 == tok).unwrap_or(false)) {
                            bump("c17.refresh_on_expired");
                        }
                        match (&r, known_dead) {
                            (Ok(()), true) => {
                                let why = if o.garbage_token || tokens.is_empty() { "unknown" } else if users.iter().any(|u| u.alive && u.session.as_ref().map(|s| s.0 == tok).unwrap_or(false)) { "expired" } else { "invalidated-or-replaced" };
                                v("C17/R2", &format!("refresh-accepted-dead-token:{}", why), format!("step {}: refresh_session returned Ok for a token that is {} (now {}, sessions {:?})", step, why, now, users.iter().map(|u| u.session.as_ref().map(|s| s.1)).collect::<Vec<_>>()));
                                // follow the implementation so later steps are not cascades
                                for u in users.iter_mut() {
                                    if u.alive && u.session.as_ref().map(|s| s.0 == tok).unwrap_or(false) {
                                        u.session = Some((tok.clone(), now + scn.refresh_lifetime));
                                    }
                                }
                            }
                            (Err(e), false) => v("C17/R2", "refresh-refused-live-token", format!("step {}: refresh_session failed with {:?} for a live token", step, e)),
                            (Ok(()), false) => {
                                for u in users.iter_mut() {
                                    if u.session.as_ref().map(|s| s.0 == tok).unwrap_or(false) {
                                        u.session = Some((tok.clone(), now + scn.refresh_lifetime));
                                    }
                                }
                            }
                            _ => {}
                        }
                        hist.push(format!("refresh:{}", r.is_ok()));
                    }
                    "invalidate" => {
                        let tok = pick_token(&tokens);
                        st.auth.lock().unwrap().invalidate_session(&tok);
                        for u in users.iter_mut() {
                            if u.session.as_ref().map(|s| s.0 == tok).unwrap_or(false) {
                                u.session = None;
                            }
                        }
                        hist.push("invalidate".into());
                    }
                    "invalidate_user" => {
                        let i = o.u % users.len();
                        st.auth.lock().unwrap().invalidate_user_session(&users[i].uid);
                        users[i].session = None;
                        hist.push("invalidate_user".into());
                    }
                    "get_uid" => {
                        let tok = pick_token(&tokens);
                        let want = owner_of(&users, &tok, now);
                        let got = st.auth.lock().unwrap().get_uid_by_token(&tok).ok();
                        if !users.iter().any(|u| u.alive && u.session.as_ref().map(|s| s.0 == tok).unwrap_or(false)) && tokens.contains(&tok) {
                            bump("c17.removed_user_token_used");
                        }
                        if got != want {
                            let sig = match (&got, &want) {
                                (Some(_), None) => "dead-token-authenticates",
                                (None, Some(_)) => "live-token-rejected",
                                _ => "token-authenticates-wrong-user",
                            };
                            v("C17/R2", sig, format!("step {}: get_uid_by_token returned {:?} but the model says {:?} (now {})", step, got.is_some(), want.is_some(), now));
                        }
                        hist.push(format!("get_uid:{}", got.is_some()));
                    }
                    "route" => {
                        bump("c17.route_requests");
                        let tok = pick_token(&tokens);
                        let with_cookie = !(o.garbage_token && o.tok % 2 == 0);
                        // (a cookie value is trimmed by the HTTP layer: surrounding whitespace is not part of it)
                        let want = if with_cookie { owner_of(&users, tok.trim(), now) } else { None };
                        let mut headers = vec![("Host".to_string(), "sim.test".to_string())];
                        if with_cookie {
                            headers.push(("Cookie".into(), format!("other=1; HumphreyToken={}", tok)));
                        }
                        let req = ReqModel { method: "GET".into(), target: "/me".into(), version: "HTTP/1.1".into(), headers, body: None }.render();
                        let got = match connect_retry(None, addr, 200) {
                            Ok(mut s) => {
                                let mut log = RecvLog::new();
                                write_all(&mut s, &req);
                                let rs = read_responses(&mut s, &mut log, 1, Duration::from_secs(20));
                                rs.first().map(|r| (r.status, String::from_utf8_lossy(crate::refs::http::body_without_tolerated_crlf(r)).to_string()))
                            }
                            Err(_) => None,
                        };
                        // the request is served at (almost) the same virtual instant; re-evaluate the model at now+1 too
                        let want_later = if with_cookie { owner_of(&users, tok.trim(), now_secs()) } else { None };
                        let ok = match (&got, &want, &want_later) {
                            (Some((200, uid)), Some(w), _) if uid == w => true,
                            (Some((200, uid)), _, Some(w)) if uid == w => true,
                            (Some((401, _)), None, _) | (Some((401, _)), _, None) => true,
                            _ => false,
                        };
                        if !ok {
                            let sig = match (&got, &want) {
                                (Some((200, _)), None) => "route-served-dead-or-missing-token",
                                (Some((401, _)), Some(_)) => "route-rejected-live-token",
                                (Some((200, _)), Some(_)) => "route-wrong-user",
                                _ => "route-no-response",
                            };
                            v("C17/R5", sig, format!("step {}: auth route answered {:?}, model says {:?}", step, got.as_ref().map(|g| g.0), want.is_some()));
                        }
                        hist.push(format!("route:{:?}", got.map(|g| g.0)));
                    }
                    "advance" => {
                        let target = users.iter().filter_map(|u| u.session.as_ref().map(|s| s.1)).filter(|e| *e + 1 >= now).min();
                        let to = match (o.jump.as_str(), target) {
                            ("to-expiry-minus-1", Some(e)) => e.saturating_sub(1),
                            ("to-expiry", Some(e)) => e,
                            ("to-expiry-plus-1", Some(e)) => e + 1,
                            ("far", _) => now + 10_000_000,
                            _ => now + 1,
                        };
                        if to > now {
                            // land exactly on the start of second `to`
                            let wall = sim::wall_ns().unwrap_or(0);
                            let delta = (to as u128 * 1_000_000_000).saturating_sub(wall) as u64;
                            sim::wall_jump_ns(delta);
                            if matches!(o.jump.as_str(), "to-expiry-minus-1" | "to-expiry" | "to-expiry-plus-1") && target.is_some() {
                                bump("c17.clock_to_expiry_boundary");
                            }
                        }
                        hist.push(format!("advance:{}", o.jump));
                    }
                    _ => {}
                }
                // invariant: at most one live session per user is structural in the model; cross-check
                // that every token the model says is dead is rejected and every live one accepted
                if step % 5 == 4 {
                    let now = now_secs();
                    for t in tokens.iter().rev().take(3) {
                        let want = owner_of(&users, t, now);
                        let got = st.auth.lock().unwrap().get_uid_by_token(t).ok();
                        if got != want {
                            v("C17/R2", if got.is_some() { "dead-token-authenticates(sweep)" } else { "live-token-rejected(sweep)" }, format!("after step {}: get_uid_by_token gives {:?}, model {:?}", step, got.is_some(), want.is_some()));
                        }
                    }
                }
            }
            *out2.lock().unwrap() = (viol, hist, counters);
        });
        rr.absorb(&outcome);
        if outcome.status != sim::EndStatus::Completed {
            let p: Vec<String> = outcome.panics.iter().map(|p| format!("{}: {} at {}", p.thread, p.message, p.location)).collect();
            rr.violate("C17/R1", format!("history-did-not-complete:{:?}", outcome.status), format!("run ended {:?}; panics {:?}", outcome.status, p));
        }
        let (viol, hist, counters) = out.lock().unwrap().clone();
        for x in viol {
            rr.violate(&x.rule, x.sig, x.detail);
        }
        for (k, n) in counters {
            rr.count(&k, n);
        }
        let nontrivial = hist.iter().any(|h| h.starts_with("create_session") && h.ends_with("ok")) && hist.iter().any(|h| h.starts_with("advance:to-expiry"));
        if nontrivial {
            rr.shapes.push(fnv64(hist.join(",").as_bytes()));
        }
        rr.sample = Some(json!({"pepper": scn.pepper.is_some(), "default_lifetime": scn.default_lifetime, "history": hist}));
        rr
    }
}
