//! C01 — one well-framed response per request on every connection, in order.
//!
//! The real `App::run` (threaded runtime) on the simulated network, reference clients
//! with explicit segmentation of the request byte stream, virtual-time timeouts, real
//! panicking handlers, seeded schedules.

use crate::common::*;
use crate::refs::http::*;
use crate::simhttp::*;
#[cfg(not(feature = "tk"))]
use humphrey::http::cors::Cors;
#[cfg(not(feature = "tk"))]
use humphrey::http::method::Method;
#[cfg(not(feature = "tk"))]
use humphrey::http::{Request, Response, StatusCode};
#[cfg(not(feature = "tk"))]
use humphrey::App;
use humsim::net::SocketAddr;
use humsim::rng::Rng;
#[cfg(not(feature = "tk"))]
use humsim::sim;
use serde::{Deserialize, Serialize};
use serde_json::{json, Value};
use std::sync::{Arc, Mutex};
use std::time::Duration;

#[cfg(not(feature = "tk"))]
pub struct C01;

#[derive(Serialize, Deserialize, Clone, Debug)]
pub struct Req {
    pub method: String,
    /// "/ok" "/echo" "/empty" "/big" "/huge" "/slow" "/panic" "/cors/x" "/nope"
    pub path: String,
    #[serde(default)]
    pub query: String,
    pub version: String,
    /// value of the Connection header, if any
    #[serde(default)]
    pub conn: Option<String>,
    #[serde(default, with = "opt_bytes")]
    pub body: Option<Vec<u8>>,
    /// None = well-formed; else one of MALFORMED / LENIENT kinds
    #[serde(default)]
    pub malformed: Option<String>,
    /// virtual ms the client stays idle before the first byte of this request (lockstep only)
    #[serde(default)]
    pub idle_before_ms: u64,
}

mod opt_bytes {
    use serde::{Deserialize, Deserializer, Serializer};
    pub fn serialize<S: Serializer>(b: &Option<Vec<u8>>, s: S) -> Result<S::Ok, S::Error> {
        match b {
            Some(b) => s.serialize_some(&b.iter().map(|&c| c as char).collect::<String>()),
            None => s.serialize_none(),
        }
    }
    pub fn deserialize<'de, D: Deserializer<'de>>(d: D) -> Result<Option<Vec<u8>>, D::Error> {
        let s: Option<String> = Option::deserialize(d)?;
        Ok(s.map(|s| s.chars().map(|c| (c as u32 & 0xff) as u8).collect()))
    }
}

#[derive(Serialize, Deserialize, Clone, Debug)]
pub struct Client {
    #[serde(default)]
    pub start_delay_us: u64,
    pub reqs: Vec<Req>,
    /// "lockstep" (next request after the previous response is complete) | "streamed"
    pub mode: String,
    /// cut offsets into the concatenation of all request bytes
    #[serde(default)]
    pub cuts: Vec<usize>,
    #[serde(default)]
    pub gap_us: u64,
    /// "close" | "halfclose" | "wait" | "rst"
    pub ending: String,
    /// tiny receive window on the client side (slow reader)
    #[serde(default)]
    pub window: Option<usize>,
    /// send only this many bytes of the last request, then end
    #[serde(default)]
    pub truncate_last: Option<usize>,
    /// after its connection has ended the client opens a new one and sends one plain request:
    /// later connections must be served whatever happened on earlier ones (a worker that died in
    /// a panicking handler must have been replaced)
    #[serde(default)]
    pub reconnect: bool,
    /// lock-step clients: after sending a request the client does not read for this long (a
    /// reader that is slow rather than dead; with a small window the server's write blocks
    /// meanwhile, for longer than the connection timeout when there is one)
    #[serde(default)]
    pub stall_reads_ms: u64,
}

#[derive(Serialize, Deserialize, Clone, Debug)]
pub struct Scn {
    pub sim: SimParams,
    pub threads: usize,
    #[serde(default)]
    pub timeout_ms: Option<u64>,
    /// "wildcard" | "list" | "none" | "nested"
    pub cors: String,
    pub clients: Vec<Client>,
    /// the application's error handler (`with_error_handler`): "" = Humphrey's default pages,
    /// "empty" = a handler that answers errors with an empty body (`Response::empty(status)`)
    #[serde(default)]
    pub error_pages: String,
}

/// An error handler whose pages have no body.
pub fn empty_error_pages(status: humphrey::http::StatusCode) -> humphrey::http::Response {
    humphrey::http::Response::empty(status)
}

pub const MALFORMED: [&str; 7] = ["bad-method", "no-target", "no-version", "no-colon", "bad-cl", "neg-cl", "bad-utf8"];
pub const LENIENT: [&str; 2] = ["bare-lf", "bare-lf-multibyte"];

pub fn big_body() -> Vec<u8> {
    (0..20_000u32).map(|i| b'a' + (i % 26) as u8).collect()
}

/// A body larger than any socket buffer of the simulated network (and than 64 KiB).
pub fn huge_body() -> Vec<u8> {
    (0..150_000u32).map(|i| b'A' + ((i / 7 + i % 13) % 26) as u8).collect()
}

pub fn render(r: &Req, cid: usize, seq: usize) -> Vec<u8> {
    let target = if r.query.is_empty() { r.path.clone() } else { format!("{}?{}", r.path, r.query) };
    let mut headers: Vec<(String, String)> = vec![("Host".into(), "sim.test".into()), ("X-Client".into(), format!("{}", cid)), ("X-Seq".into(), format!("{}", seq))];
    if let Some(c) = &r.conn {
        headers.push(("Connection".into(), c.clone()));
    }
    if let Some(b) = &r.body {
        headers.push(("Content-Length".into(), format!("{}", b.len())));
    }
    let m = ReqModel { method: r.method.clone(), target: target.clone(), version: r.version.clone(), headers: headers.clone(), body: r.body.clone() };
    match r.malformed.as_deref() {
        None => m.render(),
        Some("bad-method") => ReqModel { method: "BREW".into(), ..m }.render(),
        Some("no-target") => format!("{}\r\nHost: sim.test\r\n\r\n", r.method).into_bytes(),
        Some("no-version") => format!("{} {}\r\nHost: sim.test\r\n\r\n", r.method, target).into_bytes(),
        Some("no-colon") => {
            let mut b = format!("{} {} {}\r\n", r.method, target, r.version).into_bytes();
            b.extend(b"Host sim.test\r\n\r\n");
            b
        }
        Some("bad-cl") => {
            let mut h = headers.clone();
            h.retain(|(k, _)| k != "Content-Length");
            h.push(("Content-Length".into(), "12abc".into()));
            ReqModel { headers: h, body: None, ..m }.render()
        }
        Some("neg-cl") => {
            let mut h = headers.clone();
            h.retain(|(k, _)| k != "Content-Length");
            h.push(("Content-Length".into(), "-5".into()));
            ReqModel { headers: h, body: None, ..m }.render()
        }
        Some("bad-utf8") => {
            let mut b = format!("{} {} {}\r\nX-Bad: ", r.method, target, r.version).into_bytes();
            b.extend([0xff, 0xfe, b'\r', b'\n', b'\r', b'\n']);
            b
        }
        Some("bare-lf") => String::from_utf8_lossy(&m.render()).replace("\r\n", "\n").into_bytes(),
        Some("bare-lf-multibyte") => {
            let mut b = format!("{} {} {}\r\n", r.method, target, r.version).into_bytes();
            b.extend("X-Name: caf\u{e9}\n\r\n".as_bytes());
            b
        }
        Some(_) => m.render(),
    }
}

fn keep_alive(r: &Req) -> bool {
    r.conn.as_deref().map(|c| c.eq_ignore_ascii_case("keep-alive")).unwrap_or(false)
}

#[derive(Clone, Debug, PartialEq)]
pub enum Expect {
    /// a normal response
    Normal { status: u16, body: Vec<u8>, options: bool, routed: bool, cors: bool, keep: bool },
    BadRequest,
    Timeout,
    /// 400+close or any well-framed response; never silence
    Lenient,
    /// the handler panics: connection ends without a response
    PanicClose,
}

pub fn route_model(r: &Req) -> (u16, Vec<u8>, bool, bool) {
    // (status, body, routed, cors)
    let echo = |r: &Req| {
        let mut b = format!("{}|{}|{}|", r.method, r.path, r.query).into_bytes();
        if let Some(x) = &r.body {
            b.extend(x);
        }
        b
    };
    match r.path.as_str() {
        "/ok" => (200, b"ok-body".to_vec(), true, false),
        "/echo" => (200, echo(r), true, false),
        "/empty" => (200, Vec::new(), true, false),
        "/big" => (200, big_body(), true, false),
        "/huge" => (200, huge_body(), true, false),
        "/slow" => (200, b"slow-body".to_vec(), true, false),
        "/panic" => (200, Vec::new(), true, false),
        p if p.starts_with("/cors/") => (200, b"cors-body".to_vec(), true, true),
        _ => (404, b"<html><body><h1>404 Not Found</h1></body></html>".to_vec(), false, false),
    }
}

/// The reference connection model: what the client must see, request by request.
pub fn expectations(scn: &Scn, c: &Client) -> Vec<Expect> {
    let mut out = Vec::new();
    for (i, r) in c.reqs.iter().enumerate() {
        if c.truncate_last.is_some() && i + 1 == c.reqs.len() {
            break;
        }
        if let (Some(t), true) = (scn.timeout_ms, c.mode == "lockstep") {
            let t = t.max(100);
            // a worker is certainly waiting on this connection when a previous response was
            // received on it, or when every connection has its own worker
            let served = i >= 1 || scn.clients.len() <= 8;
            if r.idle_before_ms * 4 > t * 5 {
                out.push(if served { Expect::Timeout } else { Expect::Lenient });
                break;
            } else if r.idle_before_ms * 4 > t * 3 {
                // too close to the timeout to call
                out.push(Expect::Lenient);
                break;
            }
        }
        match r.malformed.as_deref() {
            Some(k) if LENIENT.contains(&k) => {
                out.push(Expect::Lenient);
                break;
            }
            Some(_) => {
                out.push(Expect::BadRequest);
                break;
            }
            None => {}
        }
        let (status, mut body, routed, cors) = route_model(r);
        if !routed && scn.error_pages == "empty" {
            body.clear();
        }
        if r.method == "OPTIONS" {
            if routed {
                out.push(Expect::Normal { status: 204, body: vec![], options: true, routed, cors, keep: keep_alive(r) });
            } else {
                out.push(Expect::Normal { status: 404, body, options: true, routed, cors, keep: keep_alive(r) });
            }
        } else if r.path == "/panic" {
            out.push(Expect::PanicClose);
            break;
        } else {
            out.push(Expect::Normal { status, body, options: false, routed, cors, keep: keep_alive(r) });
        }
        if !keep_alive(r) {
            break;
        }
    }
    out
}

#[derive(Clone, Debug)]
pub struct HandlerEv {
    pub cid: String,
    pub seq: String,
    pub method: String,
    pub uri: String,
    pub query: String,
    pub body: Vec<u8>,
}

pub struct HState {
    pub log: Mutex<Vec<HandlerEv>>,
}

#[cfg(not(feature = "tk"))]
pub fn build_app(threads: usize, timeout_ms: Option<u64>, cors: &str, error_pages: &str) -> (App<HState>, Arc<HState>) {
    let app: App<HState> = App::new_with_config(threads.clamp(1, 8), HState { log: Mutex::new(Vec::new()) });
    let app = if error_pages == "empty" { app.with_error_handler(empty_error_pages) } else { app };
    let st = app.get_state();
    fn note(req: &Request, st: &Arc<HState>) {
        st.log.lock().unwrap().push(HandlerEv {
            cid: req.headers.get("X-Client").unwrap_or("?").to_string(),
            seq: req.headers.get("X-Seq").unwrap_or("?").to_string(),
            method: req.method.to_string(),
            uri: req.uri.clone(),
            query: req.query.clone(),
            body: req.content.clone().unwrap_or_default(),
        });
    }
    let cors_cfg = match cors {
        "wildcard" => Cors::wildcard(),
        "list" => Cors::new().with_origin("https://a.example").with_origin("https://b.example").with_method(Method::Get).with_method(Method::Post).with_header("X-Custom"),
        // entries that are substrings of earlier entries (a de-duplication by substring would drop them)
        "nested" => Cors::new().with_origin("http://localhost:3000").with_origin("http://localhost").with_method(Method::Get).with_method(Method::Post).with_method(Method::Put).with_header("Accept-Language").with_header("Accept").with_header("X-Auth-Token").with_header("X-Auth"),
        _ => Cors::new(),
    };
    let timeout_ms = timeout_ms.map(|t| t.max(100));
    let app = app
        .with_route("/ok", |req: Request, st: Arc<HState>| {
            note(&req, &st);
            Response::new(StatusCode::OK, "ok-body")
        })
        .with_route("/echo", |req: Request, st: Arc<HState>| {
            note(&req, &st);
            let mut b = format!("{}|{}|{}|", req.method, req.uri, req.query).into_bytes();
            if let Some(c) = &req.content {
                b.extend(c);
            }
            Response::new(StatusCode::OK, b)
        })
        .with_route("/empty", |req: Request, st: Arc<HState>| {
            note(&req, &st);
            Response::empty(StatusCode::OK)
        })
        .with_route("/huge", |req: Request, st: Arc<HState>| {
            note(&req, &st);
            Response::new(StatusCode::OK, huge_body())
        })
        .with_route("/slow", |req: Request, st: Arc<HState>| {
            note(&req, &st);
            humsim::thread::sleep(Duration::from_millis(30));
            Response::new(StatusCode::OK, "slow-body")
        })
        .with_route("/big", |req: Request, st: Arc<HState>| {
            note(&req, &st);
            Response::new(StatusCode::OK, big_body())
        })
        .with_route("/panic", |req: Request, st: Arc<HState>| -> Response {
            note(&req, &st);
            panic!("handler panics on purpose")
        })
        .with_route("/cors/*", |req: Request, st: Arc<HState>| {
            note(&req, &st);
            Response::new(StatusCode::OK, "cors-body")
        })
        .with_cors_config("/cors/*", cors_cfg)
        .with_connection_timeout(timeout_ms.map(Duration::from_millis));
    (app, st)
}

#[derive(Clone, Debug, Default)]
pub struct ClientOut {
    pub log: Option<RecvLog>,
    /// per request: (first byte sent ns, last byte sent ns); None if never sent
    pub sent: Vec<Option<(u64, u64)>>,
    pub connected_ns: u64,
    pub idle_start_ns: Vec<u64>,
    pub open_probe: Option<bool>,
    pub closed_observed: Option<bool>,
    pub finished: bool,
    pub connect_error: Option<String>,
    /// the follow-up connection: None = not attempted, Some(None) = no response, Some(Some(status))
    pub reconnect_status: Option<Option<u16>>,
}

pub const SERVER_ADDR: &str = "127.0.0.1:8080";

#[cfg(not(feature = "tk"))]
pub fn run_client(cid: usize, c: &Client, expects: &[Expect], addr: SocketAddr, out: &Arc<Mutex<ClientOut>>, timeout_ms: Option<u64>) {
    // inter-segment gaps stay clearly below the connection timeout (a longer gap that falls on
    // a request boundary is an idle period, which only lock-step scripts model)
    let mut c = c.clone();
    if let Some(t) = timeout_ms {
        c.gap_us = c.gap_us.min(t.max(100) * 1000 / 4);
    }
    let c = &c;
    if c.start_delay_us > 0 {
        humsim::thread::sleep(Duration::from_micros(c.start_delay_us));
    }
    let mut s = match connect_retry(None, addr, 200) {
        Ok(s) => s,
        Err(e) => {
            out.lock().unwrap().connect_error = Some(e.to_string());
            return;
        }
    };
    if let Some(w) = c.window {
        s.sim_set_window(w);
    }
    let mut log = RecvLog::new();
    let rendered: Vec<Vec<u8>> = c.reqs.iter().enumerate().map(|(i, r)| render(r, cid, i)).collect();
    let mut sent: Vec<Option<(u64, u64)>> = vec![None; c.reqs.len()];
    let mut idle_start: Vec<u64> = vec![0; c.reqs.len()];
    out.lock().unwrap().connected_ns = sim::now_ns();
    let wait = Duration::from_secs(20);
    let mut offset = 0usize;
    let mut alive = true;
    if c.mode == "streamed" {
        // one byte stream, cut only where the script says, regardless of responses
        let mut all = Vec::new();
        let mut bounds = Vec::new();
        for (i, r) in rendered.iter().enumerate() {
            let mut r = r.clone();
            if i + 1 == rendered.len() {
                if let Some(t) = c.truncate_last {
                    r.truncate(t.min(r.len()));
                }
            }
            bounds.push((all.len(), all.len() + r.len()));
            all.extend(r);
        }
        // a pipelining client reads while it writes (otherwise two full windows deadlock)
        let mut rd = s.try_clone().expect("try_clone");
        let want = expects.len();
        let writer_done = Arc::new(std::sync::atomic::AtomicBool::new(false));
        let wd = writer_done.clone();
        let reader = humsim::thread::spawn(move || {
            let mut log = RecvLog::new();
            loop {
                // patience is counted from the moment the writer has sent everything
                let done_before = wd.load(std::sync::atomic::Ordering::SeqCst);
                let rs = read_responses(&mut rd, &mut log, want, wait);
                if rs.len() >= want || log.ended() || done_before {
                    break;
                }
                if let StreamEnd::Garbage { .. } = parse_stream(&log.bytes, false).1 {
                    break;
                }
            }
            log
        });
        let t0 = sim::now_ns();
        let (ok, times) = send_segmented_timed(&mut s, &all, &c.cuts, c.gap_us);
        let t1 = sim::now_ns();
        for (i, (_, b)) in bounds.iter().enumerate() {
            // (.0: the request cannot have been complete at the server before this instant)
            sent[i] = Some((if *b > 0 { sent_not_before(&times, b - 1, t0) } else { t0 }, t1));
        }
        alive = ok;
        writer_done.store(true, std::sync::atomic::Ordering::SeqCst);
        if let Ok(l) = reader.join() {
            log = l;
        }
    } else {
        let mut last_resp_ns = sim::now_ns();
        for (i, bytes) in rendered.iter().enumerate() {
            if i >= expects.len() + 1 && !(c.truncate_last.is_some() && i + 1 == rendered.len()) {
                break;
            }
            let mut bytes = bytes.clone();
            let is_trunc = c.truncate_last.is_some() && i + 1 == rendered.len();
            if is_trunc {
                bytes.truncate(c.truncate_last.unwrap().min(bytes.len()));
            }
            idle_start[i] = last_resp_ns;
            if c.reqs[i].idle_before_ms > 0 {
                // stay idle, but notice a response/close arriving meanwhile (408 + FIN)
                let _ = read_responses(&mut s, &mut log, i + 1, Duration::from_millis(c.reqs[i].idle_before_ms));
            }
            if log.ended() || i >= expects.len() && !is_trunc {
                break;
            }
            // cuts falling inside this request
            let cuts: Vec<usize> = c.cuts.iter().filter(|&&x| x > offset && x < offset + bytes.len()).map(|x| x - offset).collect();
            let t0 = sim::now_ns();
            let (ok, times) = send_segmented_timed(&mut s, &bytes, &cuts, c.gap_us);
            sent[i] = Some((if bytes.is_empty() { t0 } else { sent_not_before(&times, bytes.len() - 1, t0) }, sim::now_ns()));
            offset += rendered[i].len();
            if is_trunc {
                break;
            }
            // (only where the response is far larger than the window: the server is then blocked in
            // its write for the whole stall, so its wait for the next request starts afterwards)
            let blocks_server = c.window.map(|w| w <= 1024).unwrap_or(false) && matches!(expects.get(i), Some(Expect::Normal { body, options: false, .. }) if body.len() >= 20_000);
            if c.stall_reads_ms > 0 && blocks_server {
                humsim::thread::sleep(Duration::from_millis(c.stall_reads_ms.min(40_000)));
            }
            // a failed write means the server already closed: what it sent before is still readable
            let rs = read_responses(&mut s, &mut log, i + 1, wait);
            if !ok {
                alive = false;
                break;
            }
            last_resp_ns = sim::now_ns();
            if rs.len() < i + 1 {
                break;
            }
        }
    }
    // what does the model say about the connection now?
    let model_open = matches!(expects.last(), Some(Expect::Normal { keep: true, .. })) && expects.len() == c.reqs.len() - usize::from(c.truncate_last.is_some());
    let (rs, _) = parse_stream(&log.bytes, log.ended());
    let got_all = rs.len() >= expects.len();
    let mut open_probe = None;
    let mut closed_observed = None;
    if got_all && c.truncate_last.is_none() && (alive || !model_open) {
        if model_open {
            // must still be open: nothing arrives and no FIN for 50 virtual ms
            // (the tolerated CRLF after the last body may still be in flight)
            while read_some(&mut s, &mut log, Duration::from_millis(50)) {}
            let (rs2, end2) = parse_stream(&log.bytes, false);
            open_probe = Some(!log.ended() && rs2.len() == rs.len() && !matches!(end2, StreamEnd::Garbage { .. }));
        } else if !expects.is_empty() {
            read_to_end(&mut s, &mut log, Duration::from_secs(10));
            closed_observed = Some(log.eof || log.reset);
        }
    }
    match c.ending.as_str() {
        "rst" => s.sim_reset(),
        "halfclose" => {
            let _ = s.shutdown(humsim::net::Shutdown::Write);
            read_to_end(&mut s, &mut log, Duration::from_secs(5));
        }
        "wait" => {
            if !model_open || c.truncate_last.is_some() {
                read_to_end(&mut s, &mut log, Duration::from_secs(5));
            }
        }
        _ => {}
    }
    drop(s);
    let mut reconnect_status = None;
    if c.reconnect {
        reconnect_status = Some(match connect_retry(None, addr, 200) {
            Ok(mut s2) => {
                let mut l2 = RecvLog::new();
                let bytes = format!("GET /ok HTTP/1.1\r\nHost: sim.test\r\nX-Client: {}\r\nX-Seq: reconnect\r\nConnection: close\r\n\r\n", cid);
                write_all(&mut s2, bytes.as_bytes());
                read_responses(&mut s2, &mut l2, 1, Duration::from_secs(30)).first().map(|r| r.status)
            }
            Err(_) => None,
        });
    }
    let mut o = out.lock().unwrap();
    o.reconnect_status = reconnect_status;
    o.log = Some(log);
    o.sent = sent;
    o.idle_start_ns = idle_start;
    o.open_probe = open_probe;
    o.closed_observed = closed_observed;
    o.finished = true;
}

/// Check one client's received stream against its expectations.
/// Reports only the first discrepancy (in request order) of a client: later ones are
/// usually consequences.  The signature of a client that pipelined several requests into
/// one segment carries a marker, because everything after a swallowed request shifts.
#[allow(clippy::too_many_arguments)]
pub fn check_client(rr: &mut RunResult, tag: &str, scn_timeout_ms: Option<u64>, cors_kind: &str, epoch_secs: u64, cid: usize, c: &Client, expects: &[Expect], o: &ClientOut, cut_inside_head_of_next: bool) -> bool {
    let mut tmp = RunResult::default();
    check_client_inner(&mut tmp, tag, scn_timeout_ms, cors_kind, epoch_secs, cid, c, expects, o, cut_inside_head_of_next);
    if let Some(v) = tmp.violations.first() {
        let sig = if cut_inside_head_of_next && !v.sig.contains("coalesced") { format!("{}@pipelined-in-one-segment", v.sig) } else { v.sig.clone() };
        rr.violate(&v.rule, sig, v.detail.clone());
        false
    } else {
        true
    }
}

#[allow(clippy::too_many_arguments)]
fn check_client_inner(rr: &mut RunResult, tag: &str, scn_timeout_ms: Option<u64>, cors_kind: &str, epoch_secs: u64, cid: usize, c: &Client, expects: &[Expect], o: &ClientOut, cut_inside_head_of_next: bool) {
    let log = match &o.log {
        Some(l) => l,
        None => {
            if let Some(e) = &o.connect_error {
                rr.violate(&format!("{}/R8", tag), "client-could-not-connect", format!("client {} could not connect: {}", cid, e));
            } else {
                rr.violate(&format!("{}/R8", tag), "client-did-not-finish", format!("client {} did not finish within the run", cid));
            }
            return;
        }
    };
    let (rs, end) = parse_stream(&log.bytes, log.ended());
    let coalesced = if cut_inside_head_of_next { "coalesced" } else { "plain" };
    match &end {
        StreamEnd::Garbage { at, why } => {
            rr.violate(&format!("{}/R1", tag), format!("not-http:{}:{}", c.mode, coalesced), format!("client {} received bytes that are not an HTTP response at offset {}: {}; stream: {}", cid, at, why, show_bytes(&log.bytes)));
            return;
        }
        StreamEnd::Incomplete { at, why } if log.ended() => {
            let during_panic = matches!(expects.get(rs.len()), Some(Expect::PanicClose));
            if !during_panic {
                rr.violate(&format!("{}/R1", tag), format!("truncated-response:{}", c.mode), format!("client {}: connection ended inside a response at offset {} ({}); stream: {}", cid, at, why, show_bytes(&log.bytes)));
                return;
            }
        }
        _ => {}
    }
    if c.truncate_last.is_some() && rs.len() == expects.len() + 1 {
        // the truncated request may be answered 400 (or silently closed)
        if rs.last().map(|r| r.status) != Some(400) && rs.last().map(|r| r.status) != Some(408) {
            rr.violate(&format!("{}/R5", tag), "truncated-request-not-400", format!("client {}: truncated request answered {:?}", cid, rs.last().map(|r| r.status)));
        }
    } else if rs.len() > expects.len() {
        rr.violate(&format!("{}/R2", tag), format!("extra-response:{}", c.mode), format!("client {} received {} responses for {} answerable requests; statuses {:?}", cid, rs.len(), expects.len(), rs.iter().map(|r| r.status).collect::<Vec<_>>()));
    }
    for (i, e) in expects.iter().enumerate() {
        let r = match rs.get(i) {
            Some(r) => r,
            None => {
                let req = &c.reqs[i];
                match e {
                    Expect::PanicClose => {
                        if !log.ended() && o.finished {
                            rr.violate(&format!("{}/R6", tag), "panic-connection-left-open", format!("client {}: request {} hit the panicking handler but the connection was neither answered nor closed", cid, i));
                        }
                    }
                    _ => {
                        let kind = match e {
                            Expect::BadRequest => format!("malformed-{}", req.malformed.clone().unwrap_or_default()),
                            Expect::Lenient => format!("lenient-{}", req.malformed.clone().unwrap_or_default()),
                            Expect::Timeout => "idle-timeout".to_string(),
                            Expect::Normal { options: true, routed, .. } => format!("options-{}", if *routed { "routed" } else { "unrouted" }),
                            Expect::Normal { .. } => "well-formed".to_string(),
                            Expect::PanicClose => unreachable!(),
                        };
                        let prev_unframed = i > 0 && rs.get(i - 1).map(|p| !p.self_delimited).unwrap_or(false);
                        let sig = if prev_unframed {
                            format!("missing-response-after-unframed:{}", kind)
                        } else {
                            format!("missing-response:{}:{}:{}", kind, c.mode, coalesced)
                        };
                        rr.violate(
                            &format!("{}/R2", tag),
                            sig,
                            format!(
                                "client {}: request {} ({} {} {:?}) got no response (received {} of {} expected; connection {}); received stream: {}",
                                cid, i, req.method, req.path, req.malformed, rs.len(), expects.len(),
                                if log.eof { "closed by server" } else if log.reset { "reset" } else { "still open, client gave up after 20 virtual s" },
                                show_bytes(&log.bytes)
                            ),
                        );
                    }
                }
                return;
            }
        };
        let req = &c.reqs[i];
        match e {
            Expect::PanicClose => {
                rr.violate(&format!("{}/R6", tag), "panic-request-answered", format!("client {}: request {} to the panicking handler was answered with {}", cid, i, r.status));
                return;
            }
            Expect::BadRequest => {
                if r.status != 400 {
                    rr.violate(&format!("{}/R5", tag), format!("malformed-not-400:{}", req.malformed.clone().unwrap_or_default()), format!("client {}: malformed request {} ({:?}) answered {} instead of 400", cid, i, req.malformed, r.status));
                }
            }
            Expect::Lenient => {}
            Expect::Timeout => {
                if r.status != 408 {
                    rr.violate(&format!("{}/R5", tag), "idle-not-408", format!("client {}: idle past the timeout answered {} instead of 408", cid, r.status));
                } else if let Some(t) = scn_timeout_ms {
                    // sound lower bound: the wait cannot have begun before the previous request was
                    // completely sent (or, for the first request, before the client connected)
                    let t = t.max(100);
                    let got_at = log.time_of(r.start);
                    let wait_from = if i == 0 { o.connected_ns } else { o.sent.get(i - 1).and_then(|x| *x).map(|x| x.1).unwrap_or(0) };
                    if got_at < wait_from + t * 1_000_000 {
                        rr.violate(&format!("{}/R5", tag), "408-earlier-than-timeout", format!("client {}: 408 arrived {} ns after the wait can have begun, timeout is {} ms", cid, got_at.saturating_sub(wait_from), t));
                        return;
                    }
                }
            }
            Expect::Normal { status, body, options, routed, cors, keep } => {
                let kind = if *options { if *routed { "options-routed" } else { "options-unrouted" } } else if *routed { "routed" } else { "unrouted" };
                if r.status != *status {
                    rr.violate(&format!("{}/R3", tag), format!("wrong-status:{}", kind), format!("client {}: request {} ({} {}) answered {} instead of {}", cid, i, req.method, req.path, r.status, status));
                    continue;
                }
                if !reason_ok(r.status, &r.reason) {
                    rr.violate(&format!("{}/R3", tag), "wrong-reason-phrase", format!("status {} with reason {:?}", r.status, r.reason));
                }
                if r.version != req.version {
                    rr.violate(&format!("{}/R3", tag), format!("version-not-echoed:{}", kind), format!("client {}: request {} sent {} but the response says {}", cid, i, req.version, r.version));
                }
                match r.header("Date") {
                    None => rr.violate(&format!("{}/R3", tag), format!("no-date:{}", kind), format!("client {}: response {} ({} {}) has no Date header", cid, i, req.method, req.path)),
                    Some(d) => {
                        let lo = o.sent.get(i).and_then(|x| *x).map(|x| x.0).unwrap_or(0);
                        let hi = log.time_of(r.start);
                        let (lo_s, hi_s) = (epoch_secs + lo / 1_000_000_000, epoch_secs + hi / 1_000_000_000);
                        if !(lo_s..=hi_s).any(|t| imf_fixdate(t) == d) {
                            rr.violate(&format!("{}/R3", tag), "wrong-date", format!("client {}: Date {:?} is not the IMF-fixdate of any instant in [{}, {}] (expected e.g. {:?})", cid, d, lo_s, hi_s, imf_fixdate(lo_s)));
                        }
                    }
                }
                if r.header("Server").is_none() {
                    rr.violate(&format!("{}/R3", tag), format!("no-server:{}", kind), format!("client {}: response {} ({} {}) has no Server header", cid, i, req.method, req.path));
                }
                if *cors {
                    let want: Vec<(&str, &str)> = match cors_kind {
                        "wildcard" => vec![("Access-Control-Allow-Origin", "*"), ("Access-Control-Allow-Headers", "*")],
                        "list" => vec![("Access-Control-Allow-Origin", "https://a.example, https://b.example"), ("Access-Control-Allow-Methods", "GET, POST"), ("Access-Control-Allow-Headers", "X-Custom")],
                        "nested" => vec![("Access-Control-Allow-Origin", "http://localhost:3000, http://localhost"), ("Access-Control-Allow-Methods", "GET, POST, PUT"), ("Access-Control-Allow-Headers", "Accept-Language, Accept, X-Auth-Token, X-Auth")],
                        _ => vec![],
                    };
                    for (k, v) in want {
                        let same = match r.header(k) {
                            Some(x) if k == "Access-Control-Allow-Headers" => x.eq_ignore_ascii_case(v),
                            Some(x) => x == v,
                            None => false,
                        };
                        if !same {
                            rr.violate(&format!("{}/R3", tag), format!("cors-header-missing:{}", kind), format!("client {}: response {} lacks CORS header {}: {} (has {:?})", cid, i, k, v, r.header(k)));
                        }
                    }
                } else if r.header("Access-Control-Allow-Origin").is_some() {
                    rr.violate(&format!("{}/R3", tag), "cors-header-on-plain-route", format!("client {}: response {} to {} carries CORS headers of another route", cid, i, req.path));
                }
                if !no_body_status(r.status) {
                    match r.header("Content-Length") {
                        None => rr.violate(&format!("{}/R3", tag), format!("no-content-length:{}", kind), format!("client {}: response {} ({} {} -> {}) has no Content-Length", cid, i, req.method, req.path, r.status)),
                        Some(cl) => {
                            if cl.parse::<usize>().ok() != Some(r.body.len()) {
                                rr.violate(&format!("{}/R3", tag), "content-length-mismatch", format!("Content-Length {} vs body {}", cl, r.body.len()));
                            }
                        }
                    }
                }
                if body_without_tolerated_crlf(r) != &body[..] {
                    rr.violate(&format!("{}/R3", tag), format!("wrong-body:{}:{}", kind, req.path), format!("client {}: response {} ({} {}) body is {} instead of {}", cid, i, req.method, req.path, show_bytes(&r.body), show_bytes(body)));
                }
                if *keep && !r.self_delimited {
                    rr.violate(&format!("{}/R4", tag), format!("keep-alive-response-not-self-delimiting:{}", kind), format!("client {}: response {} ({} {} -> {}) keeps the connection open but has no Content-Length", cid, i, req.method, req.path, r.status));
                }
            }
        }
    }
    if let Some(false) = o.open_probe {
        rr.violate(&format!("{}/R4", tag), "closed-although-keep-alive", format!("client {}: the last request asked for keep-alive and was well-formed, but the server closed or sent extra bytes; stream: {}", cid, show_bytes(&log.bytes)));
    }
    if let Some(false) = o.closed_observed {
        let last = expects.last();
        let k = match last {
            Some(Expect::BadRequest) => "after-400",
            Some(Expect::Timeout) => "after-408",
            Some(Expect::PanicClose) => "after-panic",
            Some(Expect::Lenient) => "after-lenient",
            _ => "after-non-keep-alive",
        };
        if !matches!(last, Some(Expect::Lenient)) {
            rr.violate(&format!("{}/R4", tag), format!("left-open:{}", k), format!("client {}: the connection must close {} but was still open 10 virtual s later", cid, k));
        }
    }
    let _ = scn_timeout_ms;
}

/// R7: per connection, the handler log must be exactly the well-formed routed non-OPTIONS
/// requests the client sent, in order, bodies byte-exact: nothing dropped, merged or altered.
pub fn check_handler_log(rr: &mut RunResult, tag: &str, scn: &Scn, expects: &[Vec<Expect>], outs: &[ClientOut], client_ok: &[bool], hl: &[HandlerEv]) {
    for (cid, c) in scn.clients.iter().enumerate() {
        if !client_ok.get(cid).copied().unwrap_or(false) {
            continue; // consequences of the first discrepancy
        }
        let mine: Vec<&HandlerEv> = hl.iter().filter(|e| e.cid == format!("{}", cid)).collect();
        // what must have been dispatched: for every expectation answered normally (and the panic one)
        let mut want = Vec::new();
        for (i, e) in expects[cid].iter().enumerate() {
            let r = &c.reqs[i];
            match e {
                Expect::Normal { options: false, routed: true, .. } | Expect::PanicClose => want.push((i, r)),
                _ => {}
            }
        }
        let o = outs[cid].clone();
        let got_all = o.log.as_ref().map(|l| parse_stream(&l.bytes, l.ended()).0.len() >= expects[cid].iter().filter(|e| !matches!(e, Expect::PanicClose)).count()).unwrap_or(false);
        // every dispatched request must be one the client sent, unchanged, in order
        let mut wi = 0;
        for ev in &mine {
            let seq: usize = ev.seq.parse().unwrap_or(usize::MAX);
            let r = match c.reqs.get(seq) {
                Some(r) => r,
                None => {
                    rr.violate(&format!("{}/R7", tag), "dispatched-unknown-request", format!("handler saw a request with X-Seq {:?} that client {} never sent", ev.seq, cid));
                    continue;
                }
            };
            if ev.method != r.method || ev.uri != r.path || ev.query != r.query || ev.body != r.body.clone().unwrap_or_default() {
                rr.violate(&format!("{}/R7", tag), format!("dispatched-request-altered:{}", c.mode), format!("client {} request {}: handler saw {} {}?{} body {} but the client sent {} {}?{} body {}", cid, seq, ev.method, ev.uri, ev.query, show_bytes(&ev.body), r.method, r.path, r.query, show_bytes(&r.body.clone().unwrap_or_default())));
            }
            while wi < want.len() && want[wi].0 < seq {
                wi += 1;
            }
            if wi < want.len() && want[wi].0 == seq {
                wi += 1;
            } else if r.malformed.is_none() {
                // dispatched although not expected (e.g. after the connection should have closed)
                if !want.iter().any(|(i, _)| *i == seq) {
                    rr.violate(&format!("{}/R7", tag), "dispatched-after-close", format!("client {} request {} was dispatched although the connection must already have been closed", cid, seq));
                }
            }
        }
        let seqs: Vec<usize> = mine.iter().filter_map(|e| e.seq.parse().ok()).collect();
        if seqs.windows(2).any(|w| w[0] >= w[1]) {
            rr.violate(&format!("{}/R7", tag), "dispatched-out-of-order-or-twice", format!("client {}: handler log order {:?}", cid, seqs));
        }
        if got_all {
            for (i, _) in &want {
                if !seqs.contains(i) {
                    rr.violate(&format!("{}/R7", tag), "answered-but-not-dispatched", format!("client {} request {} was answered but its handler never ran", cid, i));
                }
            }
        }
    }
}

fn gen_req(rng: &mut Rng, last: bool, allow_special: bool) -> Req {
    let methods = ["GET", "POST", "PUT", "DELETE", "OPTIONS"];
    let paths = ["/ok", "/echo", "/empty", "/big", "/cors/x", "/nope", "/echo", "/ok"];
    let method = methods[rng.usize_below(5)].to_string();
    let mut path = paths[rng.usize_below(paths.len())].to_string();
    if allow_special && rng.chance(1, 14) {
        path = "/panic".into();
    }
    // (a separate draw, so that the other dimensions keep their values)
    {
        let mut r2 = Rng::new(humsim::rng::mix(&[rng.next_u64(), 0xC01_0002]));
        if r2.chance(1, 16) && path != "/panic" {
            path = "/huge".into();
        } else if r2.chance(1, 12) && path != "/panic" {
            // a handler that takes 30 virtual ms: responses to pipelined requests must still
            // come back in request order
            path = "/slow".into();
        }
    }
    // (a request in the middle of a script may ask to close as well: whatever follows it on the
    // connection must then not be answered)
    let early_close = !last && Rng::new(humsim::rng::mix(&[rng.next_u64(), 0xC01_0004])).chance(1, 12);
    let conn = if (last && rng.chance(1, 2)) || early_close {
        match rng.below(3) {
            0 => Some("close".to_string()),
            1 => None,
            _ => Some("Close".to_string()),
        }
    } else {
        Some(["keep-alive", "Keep-Alive", "KEEP-ALIVE", "keep-Alive"][rng.usize_below(4)].to_string())
    };
    let body = if method != "GET" && method != "OPTIONS" && rng.chance(2, 3) || rng.chance(1, 10) {
        let n = match rng.below(10) {
            0 => 0,
            1..=6 => rng.range(1, 64),
            7..=8 => rng.range(65, 4096),
            _ => rng.range(8000, 9000),
        } as usize;
        Some(rng.bytes(n))
    } else {
        None
    };
    let malformed = if allow_special && rng.chance(1, 16) {
        Some(if rng.chance(2, 3) { MALFORMED[rng.usize_below(MALFORMED.len())] } else { LENIENT[rng.usize_below(LENIENT.len())] }.to_string())
    } else {
        None
    };
    Req {
        method,
        path,
        query: if rng.chance(1, 3) { format!("a={}&b=x", rng.below(100)) } else { String::new() },
        version: if rng.chance(1, 4) { "HTTP/1.0".into() } else { "HTTP/1.1".into() },
        conn,
        body,
        malformed,
        idle_before_ms: 0,
    }
}

impl Client {
    /// One lock-step client in five is a reader that stalls: a small window, a large response
    /// among its requests, and a pause before reading that outlasts the connection timeout.
    fn with_stall(mut self, rng: &mut Rng, timeout_ms: Option<u64>) -> Client {
        let mut r = Rng::new(humsim::rng::mix(&[rng.next_u64(), 0xC01_0005]));
        if self.mode == "lockstep" && r.chance(1, 5) {
            self.window = Some([64usize, 1024][r.usize_below(2)]);
            self.stall_reads_ms = timeout_ms.map(|t| t.max(100) + [50u64, 1500][r.usize_below(2)]).unwrap_or(2000);
            let k = r.usize_below(self.reqs.len());
            // (the truncation offset of a truncated last request was drawn for its bytes as they are)
            let untouchable = self.truncate_last.is_some() && k + 1 == self.reqs.len();
            if self.reqs[k].malformed.is_none() && self.reqs[k].path != "/panic" && !untouchable {
                self.reqs[k].path = if r.chance(1, 2) { "/huge".into() } else { "/big".into() };
            }
        }
        self
    }
}

pub fn gen_client(rng: &mut Rng, tier: Tier, timeout_ms: Option<u64>) -> Client {
    let nreq = match rng.below(6) {
        0 => 1,
        1..=3 => rng.range(2, 3),
        _ => rng.range(2, if tier == Tier::Quick { 5 } else { 6 }),
    } as usize;
    let mode = if rng.chance(2, 5) { "streamed" } else { "lockstep" }.to_string();
    let mut reqs: Vec<Req> = (0..nreq).map(|i| gen_req(rng, i + 1 == nreq, true)).collect();
    if mode == "lockstep" {
        if let Some(t) = timeout_ms {
            // idle gaps clearly below or clearly above the timeout
            for r in reqs.iter_mut() {
                match rng.below(8) {
                    0 => r.idle_before_ms = t / 2,
                    1 => r.idle_before_ms = t + t / 2 + 10,
                    _ => {}
                }
            }
        } else if rng.chance(1, 6) {
            let k = rng.usize_below(nreq);
            reqs[k].idle_before_ms = [10u64, 1000, 40_000][rng.usize_below(3)];
        }
    }
    let total: usize = reqs.iter().enumerate().map(|(i, r)| render(r, 0, i).len()).sum();
    let cuts: Vec<usize> = match rng.below(7) {
        0 => vec![],
        1 => (1..total.min(600)).collect(),
        2 => {
            // cuts just after each request boundary's first bytes: tail of k and head of k+1 share a segment
            let mut v = Vec::new();
            let mut off = 0;
            for (i, r) in reqs.iter().enumerate() {
                let l = render(r, 0, i).len();
                if l > 8 {
                    v.push(off + 3 + rng.usize_below(l - 6));
                }
                off += l;
            }
            v
        }
        3 => {
            // cut at every request boundary (one request per segment)
            let mut v = Vec::new();
            let mut off = 0;
            for (i, r) in reqs.iter().enumerate() {
                off += render(r, 0, i).len();
                v.push(off);
            }
            v
        }
        _ => {
            let k = rng.range(1, 6);
            (0..k).map(|_| 1 + rng.usize_below(total.max(2) - 1)).collect()
        }
    };
    let truncate_last = if rng.chance(1, 12) {
        let l = render(&reqs[nreq - 1], 0, nreq - 1).len();
        Some(rng.usize_below(l))
    } else {
        None
    };
    Client {
        start_delay_us: if rng.chance(1, 2) { rng.below(3000) } else { 0 },
        reqs,
        mode,
        cuts,
        gap_us: [0u64, 0, 10, 500, 20_000, 2_000_000][rng.usize_below(6)],
        ending: ["close", "close", "halfclose", "wait", "rst"][rng.usize_below(5)].to_string(),
        window: if rng.chance(1, 8) { Some([64usize, 1024][rng.usize_below(2)]) } else { None },
        truncate_last,
        reconnect: Rng::new(humsim::rng::mix(&[rng.next_u64(), 0xC01_0003])).chance(1, 3),
        stall_reads_ms: 0,
    }
    .with_stall(rng, timeout_ms)
}

#[cfg(not(feature = "tk"))]
impl Prop for C01 {
    fn id(&self) -> &'static str {
        "C01"
    }
    fn level(&self) -> &'static str {
        "exploration"
    }
    fn runs(&self, tier: Tier) -> u64 {
        match tier {
            Tier::Quick => 40_000,
            Tier::Thorough => 1_200_000,
        }
    }
    fn rule(&self) -> &'static str {
        "One case = a generated application configuration (pool 1..4 threads, connection timeout none / 1..30 s, CORS wildcard / list / list whose entries are substrings of earlier ones / none, error pages default / from an error handler that returns an empty body) plus 1..4 (thorough 1..8) client scripts of 1..6 requests over 5 methods x 9 targets (bodies of 0, 7, 9, 20 000 and 150 000 bytes, an echo, a handler that takes 30 virtual ms, a panicking handler, an unrouted path) x 2 versions x Connection variants x bodies 0..9000 bytes x malformed kinds x idle gaps, an explicit segmentation (cut offsets + inter-segment gap) of the client byte stream, lock-step or streamed pacing (one lock-step client in five has a small window, a 20 000- or 150 000-byte response among its requests and does not read for longer than the connection timeout while the server is blocked writing it), an ending (close / half-close / wait / RST) optional truncation of the last request, and for one client in three a follow-up connection with one plain request after the first connection has ended, all under one seeded schedule and seeded network knobs (short reads/writes, default segmentation, tiny windows, latency). Distinct = distinct history shape: per client the sequence of (method, target kind, well-formedness, pacing, number of segments, statuses received, how the connection ended). Non-trivial = at least two requests on one connection or two overlapping connections, and at least one cut inside a request."
    }
    fn assumptions(&self) -> Vec<String> {
        vec![
            "transport is a reliable ordered byte stream (TCP contract); close with unread data is modelled as an orderly FIN".into(),
            "exactly one CRLF is tolerated after a non-empty Content-Length body (pinned by test_response)".into(),
            "lenient-or-reject kinds (bare LF line endings) may be answered 400 or accepted; only silence is a violation".into(),
            "a truncated final request followed by client close may be answered 400/408 or closed silently".into(),
            "Date is checked at second granularity against the virtual wall clock: not before the segment carrying the request's last byte was written, not after the response's first byte was received".into(),
            "this phase is the threaded runtime; the tokio runtime is exercised by the twin phase C01T of the same check (no connection timeout exists there, so 408 is never expected)".into(),
        ]
    }
    fn expected_counters(&self) -> Vec<&'static str> {
        vec!["c01.requests", "c01.error_handler_with_empty_pages", "c01.reader_stalls_past_timeout_on_large_response", "c01.clients_streamed", "c01.follow_up_connections", "c01.clients_lockstep", "c01.two_requests_share_segment", "c01.cut_inside_request", "c01.malformed", "c01.lenient", "c01.idle_past_timeout", "c01.panic_requests", "c01.truncated_last", "c01.rst_ending", "net.short_read", "net.window_full", "net.segmented_write"]
    }
    fn real_vs_stub(&self) -> (Vec<&'static str>, Vec<&'static str>) {
        (
            vec!["humphrey::App::run, client_handler, get_handler, Request::from_stream(_with_timeout), Response serialisation, Cors, DateTime::now, ThreadPool + recovery thread, real handler panics"],
            vec!["std::net (humsim::net in-memory TCP)", "std::thread/sync scheduling (humsim)", "SystemTime (virtual wall clock)", "HTTP clients are harness reference implementations"],
        )
    }

    fn generate(&self, seed: u64, idx: u64, tier: Tier) -> Value {
        let mut rng = Rng::new(run_seed(seed, "C01", idx));
        let timeout_ms = if rng.chance(1, 2) { Some([1000u64, 3000, 10_000, 30_000][rng.usize_below(4)]) } else { None };
        let nclients = match rng.below(4) {
            0..=1 => 1,
            2 => 2,
            _ => rng.range(2, if tier == Tier::Quick { 4 } else { 8 }),
        } as usize;
        let clients: Vec<Client> = (0..nclients).map(|_| gen_client(&mut rng, tier, timeout_ms)).collect();
        let mut sim = SimParams::draw(&mut rng, true);
        sim.max_decisions = 400_000;
        // the server-side receive window always holds a whole client script (a real kernel buffer
        // does); slow readers are modelled on the client side (`window`)
        sim.rx_capacity = None;
        let scn = Scn { sim, threads: rng.range(1, 4) as usize, timeout_ms, cors: ["wildcard", "list", "none", "nested"][rng.usize_below(4)].to_string(), clients, error_pages: if Rng::new(humsim::rng::mix(&[run_seed(seed, "C01", idx), 0xC01_0006])).chance(1, 4) { "empty".into() } else { String::new() } };
        serde_json::to_value(scn).unwrap()
    }

    fn execute(&self, scenario: &Value) -> RunResult {
        let mut rr = RunResult { evals: 1, ..Default::default() };
        let scn: Scn = match serde_json::from_value(scenario.clone()) {
            Ok(s) => s,
            Err(e) => {
                rr.harness_error = Some(format!("bad scenario: {}", e));
                return rr;
            }
        };
        let addr: SocketAddr = SERVER_ADDR.parse().unwrap();
        let outs: Vec<Arc<Mutex<ClientOut>>> = scn.clients.iter().map(|_| Arc::new(Mutex::new(ClientOut::default()))).collect();
        let expects: Vec<Vec<Expect>> = scn.clients.iter().map(|c| expectations(&scn, c)).collect();
        let hstate: Arc<Mutex<Option<Arc<HState>>>> = Arc::new(Mutex::new(None));
        let (outs2, scn2, expects2, hstate2) = (outs.clone(), scn.clone(), expects.clone(), hstate.clone());
        let outcome = sim::run(scn.sim.to_config(), move || {
            // every connection gets a worker: with fewer workers than open connections a
            // response is not owed until another connection ends (queueing is C08/C20's subject)
            let (app, st) = build_app(scn2.threads.max(scn2.clients.len()), scn2.timeout_ms, &scn2.cors, &scn2.error_pages);
            *hstate2.lock().unwrap() = Some(st);
            humsim::thread::spawn(move || {
                let _ = app.run(addr);
            });
            let mut hs = Vec::new();
            for (cid, c) in scn2.clients.iter().enumerate() {
                let (c, e, o) = (c.clone(), expects2[cid].clone(), outs2[cid].clone());
                let tmo = scn2.timeout_ms;
                hs.push(humsim::thread::spawn(move || run_client(cid, &c, &e, addr, &o, tmo)));
            }
            for h in hs {
                let _ = h.join();
            }
        });
        rr.absorb(&outcome);
        match outcome.status {
            sim::EndStatus::Completed => {}
            ref s => {
                let blocked: Vec<String> = outcome.threads.iter().filter(|t| t.state != "finished").map(|t| format!("{}:{}:{}", t.name, t.state, t.op)).collect();
                rr.violate("C01/R8", format!("no-progress:{:?}", s), format!("the run ended {:?}: clients could not finish; threads: {:?}", s, blocked));
            }
        }
        let mut shape = String::new();
        let mut nontrivial = false;
        let mut client_ok: Vec<bool> = Vec::new();
        for (cid, c) in scn.clients.iter().enumerate() {
            let o = outs[cid].lock().unwrap().clone();
            // probes
            rr.count("c01.requests", c.reqs.len() as u64);
            if scn.error_pages == "empty" && c.reqs.iter().any(|r| route_model(r).0 == 404) {
                rr.count("c01.error_handler_with_empty_pages", 1);
            }
            rr.count(if c.mode == "streamed" { "c01.clients_streamed" } else { "c01.clients_lockstep" }, 1);
            if c.mode == "lockstep" && c.stall_reads_ms > 0 && c.window.map(|w| w <= 1024).unwrap_or(false) && c.reqs.iter().any(|r| r.path == "/huge" || r.path == "/big") {
                rr.count("c01.reader_stalls_past_timeout_on_large_response", 1);
            }
            let lens: Vec<usize> = c.reqs.iter().enumerate().map(|(i, r)| render(r, cid, i).len()).collect();
            let mut bounds = Vec::new();
            let mut off = 0;
            for l in &lens {
                off += l;
                bounds.push(off);
            }
            let total = off;
            let cuts: std::collections::BTreeSet<usize> = c.cuts.iter().copied().filter(|&x| x > 0 && x < total).collect();
            let inside = cuts.iter().any(|x| !bounds.contains(x));
            // two requests share a segment when streamed and some boundary is not a cut
            let share = c.mode == "streamed" && c.reqs.len() > 1 && bounds[..bounds.len() - 1].iter().any(|b| !cuts.contains(b));
            if inside {
                rr.count("c01.cut_inside_request", 1);
            }
            if share {
                rr.count("c01.two_requests_share_segment", 1);
            }
            for r in &c.reqs {
                match r.malformed.as_deref() {
                    Some(k) if LENIENT.contains(&k) => rr.count("c01.lenient", 1),
                    Some(_) => rr.count("c01.malformed", 1),
                    None => {}
                }
                if r.path == "/panic" && r.method != "OPTIONS" {
                    rr.count("c01.panic_requests", 1);
                }
            }
            if expects[cid].iter().any(|e| *e == Expect::Timeout) {
                rr.count("c01.idle_past_timeout", 1);
            }
            if c.truncate_last.is_some() {
                rr.count("c01.truncated_last", 1);
            }
            if c.ending == "rst" {
                rr.count("c01.rst_ending", 1);
            }
            let ok = check_client(&mut rr, "C01", scn.timeout_ms, &scn.cors, scn.sim.epoch_secs, cid, c, &expects[cid], &o, share);
            client_ok.push(ok);
            if (c.reqs.len() >= 2 || scn.clients.len() >= 2) && inside {
                nontrivial = true;
            }
            let statuses: Vec<u16> = o.log.as_ref().map(|l| parse_stream(&l.bytes, l.ended()).0.iter().map(|r| r.status).collect()).unwrap_or_default();
            shape.push_str(&format!("[{}:{}:{}:", c.mode, cuts.len().min(9), c.ending));
            for r in &c.reqs {
                shape.push_str(&format!("{}{}{}{},", &r.method[..2], r.path, r.malformed.clone().unwrap_or_default(), r.version));
            }
            shape.push_str(&format!("{:?}{}]", statuses, o.log.as_ref().map(|l| l.eof).unwrap_or(false)));
        }
        // R7: handler log per connection = the well-formed routed non-OPTIONS requests, in order, bodies exact
        if let Some(st) = hstate.lock().unwrap().clone() {
            let mut hl = st.log.lock().unwrap().clone();
            hl.retain(|e| e.seq != "reconnect");
            let outs_now: Vec<ClientOut> = outs.iter().map(|o| o.lock().unwrap().clone()).collect();
            check_handler_log(&mut rr, "C01", &scn, &expects, &outs_now, &client_ok, &hl);
            // R6 (continued): a connection opened after an earlier one ended is served, whatever
            // happened before (panicking handlers included)
            for (cid, o) in outs_now.iter().enumerate() {
                if let Some(st) = o.reconnect_status {
                    rr.count("c01.follow_up_connections", 1);
                    if st != Some(200) {
                        let after_panic = scn.clients.iter().any(|c| c.reqs.iter().any(|r| r.path == "/panic"));
                        rr.violate("C01/R6", format!("later-connection-not-served:{}", if after_panic { "after-a-handler-panic" } else { "no-panic" }), format!("client {} opened a new connection after its first one had ended and sent GET /ok: got {:?} instead of 200 (pool of {} thread(s))", cid, st, scn.threads));
                    }
                }
            }
        }
        if nontrivial {
            rr.shapes.push(fnv64(shape.as_bytes()));
        }
        // sample
        rr.sample = Some(json!({
            "threads": scn.threads, "timeout_ms": scn.timeout_ms, "strategy": scn.sim.strategy,
            "clients": scn.clients.iter().enumerate().map(|(cid, c)| {
                let o = outs[cid].lock().unwrap().clone();
                json!({
                    "mode": c.mode, "ending": c.ending, "cuts": c.cuts.len(), "gap_us": c.gap_us,
                    "requests": c.reqs.iter().map(|r| format!("{} {} {} conn={:?} body={:?} malformed={:?} idle_ms={}", r.method, r.path, r.version, r.conn, r.body.as_ref().map(|b| b.len()), r.malformed, r.idle_before_ms)).collect::<Vec<_>>(),
                    "expected": expects[cid].iter().map(|e| match e { Expect::Normal{status,..} => format!("{}", status), x => format!("{:?}", x) }).collect::<Vec<_>>(),
                    "received_statuses": o.log.as_ref().map(|l| parse_stream(&l.bytes, l.ended()).0.iter().map(|r| r.status).collect::<Vec<_>>()),
                    "server_closed": o.log.as_ref().map(|l| l.eof),
                })
            }).collect::<Vec<_>>(),
        }));
        rr
    }
}
