//! C16 — file cache returns only the latest bytes for the same key and keeps its limits.
//!
//! Level 1: 1..8 simulated threads issue set/get through the real `RwLock<Cache>` exactly
//! as the handlers do, with the virtual wall clock landing before, on and after second
//! boundaries and age limits.  Level 2: the real file/directory handlers with a
//! cache-enabled AppState, files rewritten between requests.

use crate::common::*;
use humphrey::http::mime::MimeType;
use humphrey::http::Request;
use humphrey_server::cache::Cache;
use humphrey_server::config::Config;
use humphrey_server::server::server::AppState;
use humsim::rng::Rng;
use humsim::sim;
use humsim::sync::RwLock;
use serde::{Deserialize, Serialize};
use serde_json::{json, Value};
use std::collections::BTreeMap;
use std::sync::atomic::{AtomicU64, Ordering};
use std::sync::{Arc, Mutex};

pub struct C16;

#[derive(Serialize, Deserialize, Clone, Debug)]
pub struct Op {
    /// "set" | "get" | "sweep" | "advance"
    pub op: String,
    #[serde(default)]
    pub key: usize,
    #[serde(default)]
    pub host: usize,
    #[serde(default)]
    pub size: usize,
    #[serde(default)]
    pub mime: usize,
    /// advance: milliseconds of wall-clock jump
    #[serde(default)]
    pub ms: u64,
}

#[derive(Serialize, Deserialize, Clone, Debug)]
pub struct Scn {
    pub sim: SimParams,
    /// "api" | "handlers"
    pub level: String,
    pub limit: usize,
    pub time_limit: usize,
    pub threads: Vec<Vec<Op>>,
}

const MIMES: [&str; 4] = ["txt", "html", "png", "json"];
const NKEYS: usize = 32;

/// The route of key number `k`: neighbouring keys differ only in the case of some letters (on a
/// case-sensitive file system `README.txt` and `readme.txt` are different files, and to the cache
/// they are simply different keys).
fn route_of(k: usize) -> String {
    let n = k / 4;
    match k % 4 {
        0 => format!("/files/readme{}.txt", n),
        1 => format!("/files/README{}.txt", n),
        2 => format!("/k{}", n),
        _ => format!("/K{}", n),
    }
}

fn now_secs() -> u64 {
    (sim::wall_ns().unwrap_or(0) / 1_000_000_000) as u64
}

fn content(tid: usize, i: usize, size: usize) -> Vec<u8> {
    let tag = format!("<t{}o{}>", tid, i).into_bytes();
    (0..size).map(|k| tag[k % tag.len()]).collect()
}

#[derive(Clone, Debug)]
enum Ev {
    Set { seq: u64, key: (usize, usize), data: Vec<u8>, mime: String, t: u64 },
    Get { seq: u64, key: (usize, usize), hit: Option<(Vec<u8>, String)>, t: u64, tid: usize },
    Sweep { seq: u64, total: usize, hits: usize },
}

fn seq_of(e: &Ev) -> u64 {
    match e {
        Ev::Set { seq, .. } | Ev::Get { seq, .. } | Ev::Sweep { seq, .. } => *seq,
    }
}

impl C16 {
    fn run_api(&self, scn: &Scn, rr: &mut RunResult) {
        let mut cfg = Config::default();
        cfg.cache.size_limit = scn.limit;
        cfg.cache.time_limit = scn.time_limit;
        let events: Arc<Mutex<Vec<Ev>>> = Arc::new(Mutex::new(Vec::new()));
        let ev2 = events.clone();
        let scn2 = scn.clone();
        let outcome = sim::run(scn.sim.to_config(), move || {
            let cache = Arc::new(RwLock::new(Cache::from(&cfg)));
            let seq = Arc::new(AtomicU64::new(0));
            let mut hs = Vec::new();
            for (tid, ops) in scn2.threads.iter().enumerate() {
                let (cache, seq, ev, ops) = (cache.clone(), seq.clone(), ev2.clone(), ops.clone());
                let limit = scn2.limit;
                hs.push(humsim::thread::spawn(move || {
                    for (i, o) in ops.iter().enumerate() {
                        let key = (o.host % 2, o.key % NKEYS);
                        let route = route_of(key.1);
                        match o.op.as_str() {
                            "set" => {
                                // any size up to the limit, with the limit itself and limit - 1 favoured
                                let size = if limit == 0 {
                                    0
                                } else {
                                    match o.size % 8 {
                                        0 => limit,
                                        1 => limit - 1,
                                        _ => o.size % (limit + 1),
                                    }
                                };
                                let data = content(tid, i, size);
                                let mime = MIMES[o.mime % MIMES.len()];
                                let mut c = cache.write().unwrap();
                                let s = seq.fetch_add(1, Ordering::SeqCst);
                                let t = now_secs();
                                c.set(&route, key.0, data.clone(), MimeType::from_extension(mime));
                                ev.lock().unwrap().push(Ev::Set { seq: s, key, data, mime: MimeType::from_extension(mime).to_string(), t });
                            }
                            "get" => {
                                let c = cache.read().unwrap();
                                let s = seq.fetch_add(1, Ordering::SeqCst);
                                let t = now_secs();
                                let hit = c.get(&route, key.0).map(|it| (it.data.clone(), it.mime_type.to_string()));
                                ev.lock().unwrap().push(Ev::Get { seq: s, key, hit, t, tid });
                            }
                            "sweep" => {
                                let c = cache.read().unwrap();
                                let s = seq.fetch_add(1, Ordering::SeqCst);
                                let mut total = 0;
                                let mut hits = 0;
                                for h in 0..2 {
                                    for k in 0..NKEYS {
                                        if let Some(it) = c.get(&route_of(k), h) {
                                            total += it.data.len();
                                            hits += 1;
                                        }
                                    }
                                }
                                ev.lock().unwrap().push(Ev::Sweep { seq: s, total, hits });
                            }
                            "advance" => {
                                // land just before / on / just after a second boundary
                                sim::wall_jump_ns(o.ms * 1_000_000);
                                humsim::thread::yield_now();
                            }
                            _ => {}
                        }
                    }
                }));
            }
            for h in hs {
                let _ = h.join();
            }
        });
        rr.absorb(&outcome);
        if outcome.status != sim::EndStatus::Completed {
            let p: Vec<String> = outcome.panics.iter().map(|p| format!("{}: {} at {}", p.thread, p.message, p.location)).collect();
            rr.violate("C16/R0", format!("run-did-not-complete:{:?}", outcome.status), format!("{:?}; panics {:?}", outcome.status, p));
        }
        if !outcome.panics.is_empty() {
            let p: Vec<String> = outcome.panics.iter().map(|p| format!("{}: {} at {}", p.thread, p.message, p.location)).collect();
            rr.violate("C16/R0", "cache-operation-panicked", format!("panics {:?}", p));
        }
        let mut evs = events.lock().unwrap().clone();
        evs.sort_by_key(seq_of);
        let mut model: BTreeMap<(usize, usize), (Vec<u8>, String, u64)> = BTreeMap::new();
        let mut last: Option<((usize, usize), u64, usize)> = None; // last set (key, time, size) if nothing intervened
        let single = scn.threads.len() == 1;
        let mut shape = String::new();
        for e in &evs {
            match e {
                Ev::Set { key, data, mime, t, .. } => {
                    model.insert(*key, (data.clone(), mime.clone(), *t));
                    last = Some((*key, *t, data.len()));
                    rr.count("c16.sets", 1);
                    shape.push('S');
                }
                Ev::Get { key, hit, t, tid, .. } => {
                    rr.count("c16.gets", 1);
                    match hit {
                        Some((data, mime)) => {
                            rr.count("c16.hits", 1);
                            shape.push('H');
                            match model.get(key) {
                                None => rr.violate("C16/R1", "hit-for-never-stored-key", format!("get({:?}) returned {} bytes although nothing was ever stored for that key", key, data.len())),
                                Some((d, m, st)) => {
                                    if d != data {
                                        let other = model.iter().any(|(k2, v)| k2 != key && &v.0 == data);
                                        rr.violate("C16/R1", if other { "hit-returns-another-keys-data" } else { "hit-returns-stale-or-foreign-bytes" }, format!("get({:?}) returned {} but the latest store for that key was {}", key, show_bytes(&data[..data.len().min(24)]), show_bytes(&d[..d.len().min(24)])));
                                    } else if m != mime {
                                        rr.violate("C16/R1", "hit-returns-wrong-mime", format!("get({:?}) returned MIME {} but {} was stored", key, mime, m));
                                    }
                                    if t.saturating_sub(*st) > scn.time_limit as u64 {
                                        rr.violate("C16/R2", "hit-older-than-time-limit", format!("get({:?}) at second {} returned an entry stored at second {} with a time limit of {} s", key, t, st, scn.time_limit));
                                    }
                                    if *t == *st + scn.time_limit as u64 {
                                        rr.count("c16.hit_exactly_at_age_limit", 1);
                                    }
                                }
                            }
                        }
                        None => {
                            shape.push('M');
                            if let Some((k, st, size)) = last {
                                if k == *key && st == *t && size <= scn.limit && (single || *tid == usize::MAX) {
                                    rr.violate("C16/R4", "miss-immediately-after-store", format!("set({:?}, {} bytes) within the {}-byte limit followed directly by get in the same second missed", key, size, scn.limit));
                                }
                            }
                            if let Some((_, _, st)) = model.get(key) {
                                if t.saturating_sub(*st) > scn.time_limit as u64 {
                                    rr.count("c16.miss_because_stale", 1);
                                }
                            }
                        }
                    }
                    last = None;
                }
                Ev::Sweep { total, hits, .. } => {
                    rr.count("c16.sweeps", 1);
                    shape.push('W');
                    if *total > scn.limit {
                        rr.violate("C16/R3", "retrievable-total-exceeds-limit", format!("{} entries totalling {} bytes are retrievable with a size limit of {}", hits, total, scn.limit));
                    }
                    last = None;
                }
            }
        }
        if scn.threads.len() > 1 {
            rr.count("c16.multi_thread_histories", 1);
        }
        if evs.len() >= 3 {
            rr.shapes.push(fnv64(format!("{}|{}|{}|{}", shape, scn.limit, scn.time_limit, scn.threads.len()).as_bytes()));
        }
        rr.sample = Some(json!({"level": "api", "limit": scn.limit, "time_limit": scn.time_limit, "threads": scn.threads.len(), "history": shape.chars().take(120).collect::<String>()}));
    }

    fn run_handlers(&self, scn: &Scn, rr: &mut RunResult) {
        use humphrey_server::r#static::{directory_handler, file_handler};
        static DIRN: AtomicU64 = AtomicU64::new(0);
        let dir = format!("/verif/target/scratch/c16-{}-{}", std::process::id(), DIRN.fetch_add(1, Ordering::SeqCst));
        let _ = std::fs::create_dir_all(format!("{}/d", dir));
        let _ = std::fs::create_dir_all(format!("{}/e", dir));
        let mut cfg = Config::default();
        cfg.cache.size_limit = scn.limit;
        cfg.cache.time_limit = scn.time_limit;
        cfg.logging.console = false;
        // (route: 0 = file route, 1 = directory route /d/*, 2 = directory route /e/*; file on disk;
        // uri; host).  The two directory routes hold files with the same relative names, each has an
        // index file, and a file route's uri equals a relative name inside the directories: a cache
        // key that is not the full (host, request path) makes two of them collide.
        let files: Vec<(u8, String, String, usize)> = vec![
            (0, format!("{}/a.txt", dir), "/a".into(), 0),
            (0, format!("{}/b.html", dir), "/a".into(), 1), // same uri, other host
            (1, format!("{}/d/c.json", dir), "/d/c.json".into(), 0),
            (1, format!("{}/d/e.png", dir), "/d/e.png".into(), 0),
            (2, format!("{}/e/c.json", dir), "/e/c.json".into(), 0),
            (2, format!("{}/e/index.html", dir), "/e/".into(), 0),
            (1, format!("{}/d/index.html", dir), "/d/".into(), 0),
            (0, format!("{}/rootc.json", dir), "/c.json".into(), 0),
            (2, format!("{}/e/e.png", dir), "/e/e.png".into(), 1),
        ];
        let exts = ["txt", "html", "json", "png", "json", "html", "html", "json", "png"];
        for (i, f) in files.iter().enumerate() {
            let _ = std::fs::write(&f.1, content(99, i, 24));
        }
        // (time, file idx, content) written so far
        let writes: Arc<Mutex<Vec<(u64, usize, Vec<u8>)>>> = Arc::new(Mutex::new((0..files.len()).map(|i| (0u64, i, content(99, i, 24))).collect()));
        let results: Arc<Mutex<Vec<(u64, u64, usize, u16, Vec<u8>, String)>>> = Arc::new(Mutex::new(Vec::new()));
        // (retrievable bytes, retrievable entries) seen by sweeps over every (uri, host) under one read lock
        let sweeps: Arc<Mutex<Vec<(usize, usize)>>> = Arc::new(Mutex::new(Vec::new()));
        let sw2 = sweeps.clone();
        let (w2, r2, scn2, files2, dir2) = (writes.clone(), results.clone(), scn.clone(), files.clone(), dir.clone());
        let outcome = sim::run(scn.sim.to_config(), move || {
            let state = Arc::new(AppState::from(cfg));
            let sweep = {
                let (state, files, sw) = (state.clone(), files2.clone(), sw2.clone());
                move || {
                    let c = state.cache.read().unwrap();
                    let (mut total, mut hits) = (0usize, 0usize);
                    for f in files.iter() {
                        if let Some(it) = c.get(&f.2, f.3) {
                            total += it.data.len();
                            hits += 1;
                        }
                    }
                    drop(c);
                    sw.lock().unwrap().push((total, hits));
                }
            };
            let mut hs = Vec::new();
            for (tid, ops) in scn2.threads.iter().enumerate() {
                let (state, ops, files, w, r, dir) = (state.clone(), ops.clone(), files2.clone(), w2.clone(), r2.clone(), dir2.clone());
                let limit = scn2.limit;
                let sweep = sweep.clone();
                hs.push(humsim::thread::spawn(move || {
                    for (i, o) in ops.iter().enumerate() {
                        let fi = o.key % files.len();
                        let f = &files[fi];
                        match o.op.as_str() {
                            "set" => {
                                // rewrite the file on disk
                                let size = 24 + o.size % (limit.max(40) + 20);
                                let data = content(tid * 10 + fi, i, size);
                                let t = now_secs();
                                w.lock().unwrap().push((t, fi, data.clone()));
                                let _ = std::fs::write(&f.1, &data);
                                humsim::thread::yield_now();
                            }
                            "get" | "sweep" => {
                                let raw = format!("GET {} HTTP/1.1\r\nHost: h{}\r\n\r\n", f.2, f.3);
                                let req = Request::from_stream(&mut raw.as_bytes(), "10.0.0.1:1000".parse().unwrap()).unwrap();
                                let t0 = now_secs();
                                humsim::thread::yield_now();
                                let resp = match f.0 {
                                    1 => directory_handler(req, state.clone(), &format!("{}/d", dir), "/d/*", f.3),
                                    2 => directory_handler(req, state.clone(), &format!("{}/e", dir), "/e/*", f.3),
                                    _ => file_handler(req, state.clone(), &f.1, f.3),
                                };
                                let ct = resp.headers.get("Content-Type").unwrap_or("").to_string();
                                let t1 = now_secs();
                                r.lock().unwrap().push((t0, t1, fi, u16::from(resp.status_code), resp.body.clone(), ct));
                                if o.op == "sweep" {
                                    sweep();
                                }
                            }
                            "advance" => {
                                sim::wall_jump_ns(o.ms * 1_000_000);
                                humsim::thread::yield_now();
                            }
                            _ => {}
                        }
                    }
                }));
            }
            for h in hs {
                let _ = h.join();
            }
            sweep();
        });
        rr.absorb(&outcome);
        let _ = std::fs::remove_dir_all(&dir);
        for (total, hits) in sweeps.lock().unwrap().iter() {
            rr.count("c16.handler_sweeps", 1);
            if *total > scn.limit {
                rr.violate("C16/R3", "retrievable-total-exceeds-limit:handlers", format!("after requests through the handlers {} entries totalling {} bytes are retrievable with a size limit of {}", hits, total, scn.limit));
                break;
            }
        }
        if outcome.status != sim::EndStatus::Completed || !outcome.panics.is_empty() {
            let p: Vec<String> = outcome.panics.iter().map(|p| format!("{}: {} at {}", p.thread, p.message, p.location)).collect();
            rr.violate("C16/R0", "handler-run-failed", format!("{:?}; panics {:?}", outcome.status, p));
        }
        let writes = writes.lock().unwrap().clone();
        let results = results.lock().unwrap().clone();
        let mut shape = String::new();
        for (t, t1, fi, status, body, ct) in &results {
            rr.count("c16.handler_requests", 1);
            if *status != 200 {
                rr.violate("C16/R5", "existing-file-not-served", format!("file {} answered {}", files[*fi].2, status));
                continue;
            }
            let want_ct = MimeType::from_extension(exts[*fi]).to_string();
            if *ct != want_ct {
                rr.violate("C16/R5", "wrong-content-type", format!("uri {} host {} served as {} instead of {}", files[*fi].2, files[*fi].3, ct, want_ct));
            }
            // acceptable: any content of the same file that was current within [t - limit - 1, t + 1]
            let mine: Vec<&(u64, usize, Vec<u8>)> = writes.iter().filter(|w| w.1 == *fi).collect();
            let ok = mine.iter().enumerate().any(|(k, w)| {
                let until = mine.get(k + 1).map(|n| n.0).unwrap_or(u64::MAX);
                w.2 == *body && w.0 <= *t1 + 1 && until.saturating_add(scn.time_limit as u64 + 1) >= *t
            });
            // with several threads a handler may be preempted between reading the file and
            // storing it (the store is then fresh although the bytes are old): only the
            // single-thread histories can bound staleness; foreign bytes are always wrong
            let known_own = mine.iter().any(|w| w.2 == *body);
            if !ok && (scn.threads.len() == 1 || !known_own) {
                let foreign = writes.iter().any(|w| w.1 != *fi && w.2 == *body);
                rr.violate("C16/R5", if foreign { "served-another-files-bytes" } else { "served-bytes-older-than-time-limit" }, format!("uri {} host {} at second {} served {} (time limit {} s; writes of this file at {:?})", files[*fi].2, files[*fi].3, t, show_bytes(&body[..body.len().min(24)]), scn.time_limit, mine.iter().map(|w| w.0).collect::<Vec<_>>()));
            }
            shape.push_str(&format!("{}{}", fi, if mine.last().map(|w| &w.2) == Some(body) { 'c' } else { 'o' }));
        }
        if results.iter().any(|r| writes.iter().filter(|w| w.1 == r.2).count() > 1) {
            rr.count("c16.file_changed_between_requests", 1);
        }
        if results.len() >= 2 {
            rr.shapes.push(fnv64(format!("h|{}|{}|{}", shape, scn.limit, scn.time_limit).as_bytes()));
        }
        rr.sample = Some(json!({"level": "handlers", "limit": scn.limit, "time_limit": scn.time_limit, "requests": results.len(), "file_writes": writes.len()}));
    }
}

impl Prop for C16 {
    fn id(&self) -> &'static str {
        "C16"
    }
    fn level(&self) -> &'static str {
        "exploration"
    }
    fn runs(&self, tier: Tier) -> u64 {
        match tier {
            Tier::Quick => 30_000,
            Tier::Thorough => 1_200_000,
        }
    }
    fn rule(&self) -> &'static str {
        "One case = a history of set/get/sweep/clock-advance operations (length <= 200, thorough <= 2000) over 32 keys (in pairs that differ only in letter case) x 2 hosts with sizes 0..limit, limits 0..64 KiB, time limits {0,1,60}, issued by 1..8 simulated threads through the real RwLock<Cache> (write lock for set, read lock for get, as the handlers do) under a seeded schedule, with wall-clock jumps landing just before / on / after second boundaries and age limits; every operation is stamped with a sequence number taken while the lock is held, which gives the linearisation order. One case in eight instead drives the real file_handler / directory_handler with a cache-enabled AppState over real files rewritten between requests: two file routes with the same uri on two hosts, two directory routes holding files with the same relative names and an index file each, and a file route whose uri equals a relative name inside the directories; 1..6 threads request concurrently, and sweeps look every (uri, host) up under one read lock and add the sizes up (also once after the last request). Distinct = distinct hit/miss/set/sweep pattern; non-trivial = at least three operations."
    }
    fn assumptions(&self) -> Vec<String> {
        vec![
            "the model is the property, not FIFO: which entry is evicted is free; a miss is always allowed except directly after a store of an item within the limit in the same second".into(),
            "wall-clock jumps are forward only".into(),
            "handler level: a response is acceptable if its bytes were the file's content at some instant no older than the time limit (+1 s rounding)".into(),
            "std::fs is real (scratch directory under /verif/target/scratch, removed after the run)".into(),
        ]
    }
    fn expected_counters(&self) -> Vec<&'static str> {
        vec!["c16.sets", "c16.gets", "c16.hits", "c16.sweeps", "c16.miss_because_stale", "c16.hit_exactly_at_age_limit", "c16.multi_thread_histories", "c16.handler_requests", "c16.handler_sweeps", "c16.file_changed_between_requests", "clock_jump"]
    }
    fn real_vs_stub(&self) -> (Vec<&'static str>, Vec<&'static str>) {
        (vec!["humphrey_server::cache::Cache::{get,set}", "humphrey_server::static::{file_handler, directory_handler, cache_check, inner_file_handler}", "AppState, Logger", "std::fs"], vec!["RwLock blocking/scheduling (humsim)", "SystemTime (virtual wall clock)"])
    }

    fn generate(&self, seed: u64, idx: u64, tier: Tier) -> Value {
        let mut rng = Rng::new(run_seed(seed, "C16", idx));
        let handlers = rng.chance(1, 8);
        let limit = match rng.below(6) {
            0 => 0,
            1 => rng.range(1, 16),
            2..=3 => rng.range(16, 400),
            4 => rng.range(400, 5000),
            _ => rng.range(5000, 65_536),
        } as usize;
        let limit = if handlers { limit.max(10) } else { limit };
        let time_limit = [0usize, 1, 60][rng.usize_below(3)];
        let nthreads = if rng.chance(1, 2) { 1 } else { rng.range(2, if handlers { 6 } else { 8 }) } as usize;
        let maxops = if handlers { 30 } else if tier == Tier::Quick { 200 } else if rng.chance(1, 50) { 2000 } else { 200 };
        let total_ops = rng.range(3, maxops) as usize;
        let nkeys = [2usize, 3, 8, 32][rng.usize_below(4)];
        let mut threads: Vec<Vec<Op>> = vec![Vec::new(); nthreads];
        for _ in 0..total_ops {
            let t = rng.usize_below(nthreads);
            let r = rng.below(100);
            let op = if r < 40 {
                "set"
            } else if r < 75 {
                "get"
            } else if r < 85 {
                "sweep"
            } else {
                "advance"
            };
            // sizes biased towards the limit and towards fractions of it
            let size = match rng.below(5) {
                0 => limit,
                1 => limit / 2 + 1,
                2 => limit / 3,
                3 => rng.usize_below(limit + 1),
                _ => rng.usize_below(limit.min(64) + 1),
            };
            let ms = match rng.below(6) {
                0 => 1,
                1 => 999,
                2 => 1000,
                3 => 1001,
                4 => (time_limit as u64) * 1000 + [0u64, 1, 999, 1000][rng.usize_below(4)],
                _ => rng.below(120_000),
            };
            threads[t].push(Op { op: op.into(), key: rng.usize_below(nkeys), host: rng.usize_below(2), size, mime: rng.usize_below(4), ms });
            if op == "set" && rng.chance(1, 2) {
                // a lookup of the same key right after the store
                let k = threads[t].last().unwrap().clone();
                threads[t].push(Op { op: "get".into(), ..k });
            }
        }
        let mut sim = SimParams::draw(&mut rng, false);
        sim.max_decisions = 400_000;
        serde_json::to_value(Scn { sim, level: if handlers { "handlers" } else { "api" }.into(), limit, time_limit, threads }).unwrap()
    }

    fn execute(&self, scenario: &Value) -> RunResult {
        let mut rr = RunResult { evals: 1, ..Default::default() };
        let scn: Scn = match serde_json::from_value(scenario.clone()) {
            Ok(s) => s,
            Err(e) => {
                rr.harness_error = Some(format!("bad scenario: {}", e));
                return rr;
            }
        };
        if scn.threads.is_empty() {
            return rr;
        }
        if scn.level == "handlers" {
            self.run_handlers(&scn, &mut rr);
        } else {
            self.run_api(&scn, &mut rr);
        }
        rr
    }
}
