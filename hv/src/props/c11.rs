//! C11 — WebSocket endpoint: valid handshake, well-formed frames out, ping/close answered.
//!
//! The real `App` with `websocket_handler(h)` runs on the simulated network; `h` is a
//! harness handler looping on `recv()` or on `recv_nonblocking()` + virtual sleep.  The
//! client is a reference RFC 6455 implementation (own SHA-1/Base64) running a script of
//! masked frames with fragmentation and interleaved control frames, delivered whole,
//! byte-wise or split inside header / extended length / key.

use crate::common::*;
use crate::refs::http::{parse_one, ReqModel};
use crate::refs::ws::{self, RFrame};
use crate::simhttp::*;
use humphrey::App;
use humphrey_ws::message::Message;
use humphrey_ws::restion::Restion;
use humphrey_ws::stream::WebsocketStream;
use humphrey_ws::websocket_handler;
use humsim::net::SocketAddr;
use humsim::rng::Rng;
use humsim::sim;
use serde::{Deserialize, Serialize};
use serde_json::{json, Value};
use std::sync::{Arc, Mutex};
use std::time::Duration;

pub struct C11;

#[derive(Serialize, Deserialize, Clone, Debug)]
pub struct Item {
    /// "text" | "binary" | "ping" | "pong" | "close"
    pub kind: String,
    #[serde(with = "bytes_as_string")]
    pub payload: Vec<u8>,
    /// data messages: fragment boundaries (offsets into payload)
    #[serde(default)]
    pub frags: Vec<usize>,
    /// control frames interleaved after fragment i: (fragment index, "ping"|"pong", payload)
    #[serde(default)]
    pub inter: Vec<(usize, String, String)>,
    #[serde(default)]
    pub key: u32,
    /// data messages: 1 = an empty first fragment precedes the data, 2 = an empty continuation
    /// precedes the last fragment, 3 = both (legal frames: a fragment may carry no payload)
    #[serde(default)]
    pub empty_frags: u8,
}

#[derive(Serialize, Deserialize, Clone, Debug)]
pub struct Scn {
    pub sim: SimParams,
    /// Sec-WebSocket-Key value; None = header absent
    pub ws_key: Option<String>,
    pub nonblocking: bool,
    pub items: Vec<Item>,
    /// cut offsets into the client's frame byte stream
    #[serde(default)]
    pub cuts: Vec<usize>,
    #[serde(default)]
    pub gap_us: u64,
    /// server echoes every message back
    pub echo: bool,
    /// handler returns (dropping the stream) after this many messages; 0 = until an error
    #[serde(default)]
    pub drop_after: usize,
    /// "close" (items end with a close frame) | "fin" | "rst" | "wait" (wait for the server)
    pub ending: String,
    /// sizes of server-initiated binary messages: a non-blocking handler sends the next one after
    /// each idle poll ("nothing yet"), a blocking handler sends them all before its first receive
    #[serde(default)]
    pub pushes: Vec<usize>,
    /// non-blocking handler: after this many idle polls it continues with blocking `recv()`
    /// (0 = never); both calls are public API of the same stream and must agree
    #[serde(default)]
    pub switch_after_idle: u32,
    /// client-side receive window (slow reader: the server's writes block on it)
    #[serde(default)]
    pub client_window: Option<usize>,
    /// the client starts reading what the server sends only after this long
    #[serde(default)]
    pub reader_delay_ms: u64,
    /// the application's connection timeout (`with_connection_timeout`): it bounds the wait for
    /// an HTTP request, never anything on an upgraded connection
    #[serde(default)]
    pub conn_timeout_ms: Option<u64>,
    /// the client pauses this long after the handshake before its first frame
    #[serde(default)]
    pub idle_before_frames_ms: u64,
}

/// Payload of the k-th server-initiated message.
fn push_payload(k: usize, size: usize) -> Vec<u8> {
    (0..size).map(|i| if i == 0 { 0xB0 + (k as u8 & 0x0F) } else { ((i * 31 + k * 7) % 251) as u8 }).collect()
}

#[derive(Clone, Debug, PartialEq)]
enum SEv {
    Msg(bool, Vec<u8>),
    Closed,
    OtherErr(String),
    NoneWithUnread(usize),
    /// server-initiated message k was sent; the bool is whether `send` returned Ok
    Pushed(usize, bool),
}

/// Render the script to frames; returns (frames, expected messages, pings, has_close).
fn render(items: &[Item]) -> (Vec<RFrame>, Vec<(bool, Vec<u8>)>, Vec<Vec<u8>>, bool) {
    let mut frames = Vec::new();
    let mut msgs = Vec::new();
    let mut pings = Vec::new();
    // arbitrary keys, among them the all-zero key (one item in seven)
    let key = |k: u32, i: usize| -> [u8; 4] { if k % 7 == 0 { [0; 4] } else { (k.wrapping_mul(2654435761).wrapping_add(i as u32 * 40503)).to_be_bytes() } };
    for (ii, it) in items.iter().enumerate() {
        match it.kind.as_str() {
            "ping" | "pong" => {
                let p: Vec<u8> = it.payload.iter().take(125).copied().collect();
                if it.kind == "ping" {
                    pings.push(p.clone());
                }
                frames.push(RFrame::masked(if it.kind == "ping" { 0x9 } else { 0xA }, p, key(it.key, ii)));
            }
            "close" => {
                let p: Vec<u8> = if it.payload.len() >= 2 { it.payload.iter().take(60).copied().collect() } else { vec![] };
                frames.push(RFrame::masked(0x8, p, key(it.key, ii)));
                return (frames, msgs, pings, true);
            }
            k => {
                let text = k == "text";
                let mut cuts: Vec<usize> = it.frags.iter().copied().filter(|&c| c > 0 && c < it.payload.len()).collect();
                cuts.sort_unstable();
                cuts.dedup();
                cuts.truncate(4);
                cuts.push(it.payload.len());
                if it.empty_frags & 1 != 0 {
                    cuts.insert(0, 0);
                }
                if it.empty_frags & 2 != 0 {
                    let at = cuts.len() - 1;
                    let prev = if at == 0 { 0 } else { cuts[at - 1] };
                    cuts.insert(at, prev);
                }
                let mut start = 0;
                let n = cuts.len();
                for (fi, c) in cuts.iter().enumerate() {
                    let mut f = RFrame::masked(if fi == 0 { if text { 1 } else { 2 } } else { 0 }, it.payload[start..*c].to_vec(), key(it.key, ii * 16 + fi));
                    f.fin = fi + 1 == n;
                    frames.push(f);
                    start = *c;
                    if fi + 1 < n {
                        for (after, kind, p) in &it.inter {
                            if *after == fi && kind == "close" {
                                // a Close in the middle of a fragmented message: the message is
                                // never completed, the connection closes here
                                frames.push(RFrame::masked(0x8, if p.len() >= 2 { vec![0x03, 0xe9] } else { vec![] }, key(it.key, ii * 16 + fi + 9)));
                                return (frames, msgs, pings, true);
                            }
                            if *after == fi {
                                let pb: Vec<u8> = p.bytes().take(125).collect();
                                if kind == "ping" {
                                    pings.push(pb.clone());
                                }
                                frames.push(RFrame::masked(if kind == "ping" { 0x9 } else { 0xA }, pb, key(it.key, ii * 16 + fi + 7)));
                            }
                        }
                    }
                }
                msgs.push((text, it.payload.clone()));
            }
        }
    }
    (frames, msgs, pings, false)
}

#[allow(clippy::too_many_arguments)]
fn handler_loop(mut ws: WebsocketStream, mut nonblocking: bool, echo: bool, drop_after: usize, pushes: Vec<usize>, switch_after_idle: u32, log: Arc<Mutex<Vec<SEv>>>) {
    let mut n = 0;
    let mut idle = 0u64;
    let mut idle_polls = 0u32;
    let mut pushed = 0usize;
    let push = |ws: &mut WebsocketStream, pushed: &mut usize| -> bool {
        let k = *pushed;
        *pushed += 1;
        let ok = ws.send(Message::new_binary(push_payload(k, pushes[k]))).is_ok();
        log.lock().unwrap().push(SEv::Pushed(k, ok));
        ok
    };
    if !nonblocking {
        while pushed < pushes.len() {
            if !push(&mut ws, &mut pushed) {
                return;
            }
        }
    }
    loop {
        if drop_after > 0 && n >= drop_after {
            break; // returning drops the stream
        }
        let msg = if nonblocking {
            // has a *data* frame started to arrive?  (leading complete control frames are consumed
            // and answered by the call itself, after which "nothing yet" is legitimate)
            let unread = match ws.inner() {
                humphrey::stream::Stream::Tcp(s) => {
                    let mut b = s.sim_peek();
                    loop {
                        match ws::decode(&b) {
                            ws::Dec::Frame(f, n) if f.opcode >= 8 => {
                                b.drain(..n);
                            }
                            _ => break,
                        }
                    }
                    if !b.is_empty() && (b[0] & 0x0F) <= 2 {
                        b.len()
                    } else {
                        0
                    }
                }
            };
            match ws.recv_nonblocking() {
                Restion::Ok(m) => Ok(m),
                Restion::Err(e) => Err(e),
                Restion::None => {
                    if unread > 0 {
                        log.lock().unwrap().push(SEv::NoneWithUnread(unread));
                    }
                    idle_polls += 1;
                    if pushed < pushes.len() && !push(&mut ws, &mut pushed) {
                        break;
                    }
                    if switch_after_idle > 0 && idle_polls >= switch_after_idle {
                        nonblocking = false;
                        continue;
                    }
                    humsim::thread::sleep(Duration::from_millis(3));
                    idle += 3;
                    if idle > 60_000 {
                        log.lock().unwrap().push(SEv::OtherErr("handler gave up after 60 s idle".into()));
                        break;
                    }
                    continue;
                }
            }
        } else {
            ws.recv()
        };
        idle = 0;
        match msg {
            Ok(m) => {
                n += 1;
                log.lock().unwrap().push(SEv::Msg(m.is_text(), m.bytes().to_vec()));
                if echo {
                    let reply = if m.is_text() { Message::new(m.bytes()) } else { Message::new_binary(m.bytes()) };
                    if ws.send(reply).is_err() {
                        break;
                    }
                }
            }
            Err(e) => {
                let s = format!("{:?}", e);
                log.lock().unwrap().push(if s == "ConnectionClosed" { SEv::Closed } else { SEv::OtherErr(s) });
                break;
            }
        }
    }
}

impl Prop for C11 {
    fn id(&self) -> &'static str {
        "C11"
    }
    fn level(&self) -> &'static str {
        "exploration"
    }
    fn runs(&self, tier: Tier) -> u64 {
        match tier {
            Tier::Quick => 20_000,
            Tier::Thorough => 1_000_000,
        }
    }
    fn rule(&self) -> &'static str {
        "One case = an App with or without a connection timeout (1 .. 5 s; the client pauses up to 3 s after the handshake, up to 100 ms between stream pieces and up to 1.5 s before reading, so pauses longer than the timeout are common) and a client script of 1..12 frames over {text, binary, continuation, ping, pong, close} (payloads 0..70 KiB, messages fragmented 1..5 ways (sometimes with an empty first fragment or an empty continuation) with ping/pong frames interleaved and sometimes a Close in the middle of a fragmented message, arbitrary mask keys), a Sec-WebSocket-Key (printable string incl. empty and long, or absent), a delivery of the client byte stream (whole, byte-wise, cuts inside the 2-byte header / extended length / key / payload, with gaps), a handler mode (blocking recv, non-blocking recv + virtual sleep, or non-blocking for the first idle polls and blocking afterwards), echo on/off or 1..3 server-initiated messages of 10..70 000 bytes (sent after idle polls / before the first receive), optionally a slow-reading client (receive window 512..8192 bytes, reading delayed up to 1.5 s), and an ending (client Close, server returning early = drop, abrupt FIN, RST), under a seeded schedule and network knobs. Distinct = distinct (frame kinds, fragment counts, delivery class, handler mode, ending, what the server wrote); non-trivial = at least two frames and a cut inside a frame, or a control frame."
    }
    fn assumptions(&self) -> Vec<String> {
        vec![
            "a Close may be answered by any well-formed Close frame (payload not compared)".into(),
            "'nothing yet' is judged with the simulator's view of delivered-but-unread bytes at the instant before recv_nonblocking is called".into(),
            "the handler gets a Stream::Tcp over humsim's socket; TLS is not built".into(),
        ]
    }
    fn expected_counters(&self) -> Vec<&'static str> {
        vec!["c11.runs", "c11.drop_after_receive_error_at_half_close", "c11.peer_pauses_longer_than_connection_timeout", "c11.no_key", "c11.nonblocking", "c11.pings", "c11.fragmented_messages", "c11.interleaved_control", "c11.close_inside_fragmented_message", "c11.empty_fragments", "c11.close_ending", "c11.server_drop_ending", "c11.abrupt_ending", "c11.cut_inside_header", "c11.large_payload", "c11.echo", "c11.server_initiated_messages", "c11.nonblocking_then_blocking", "c11.slow_reader"]
    }
    fn real_vs_stub(&self) -> (Vec<&'static str>, Vec<&'static str>) {
        (vec!["humphrey_ws::{websocket_handler, handshake, WebsocketStream::{recv, recv_nonblocking, send, Drop}, Message::from_stream(_nonblocking), Frame}", "humphrey::App (upgrade dispatch), SHA-1/Base64 of the handshake"], vec!["TCP, threads, Instant (humsim)", "client is a harness reference RFC 6455 implementation"])
    }

    fn generate(&self, seed: u64, idx: u64, tier: Tier) -> Value {
        let mut rng = Rng::new(run_seed(seed, "C11", idx));
        let nitems = rng.range(1, 5) as usize;
        let mut items = Vec::new();
        for _ in 0..nitems {
            let r = rng.below(10);
            let kind = if r < 4 { "text" } else if r < 7 { "binary" } else if r < 9 { "ping" } else { "pong" };
            let len = match rng.below(12) {
                0 => 0,
                1..=7 => rng.range(1, 60),
                8..=9 => rng.range(120, 130),
                10 => rng.range(65_530, 65_540),
                _ => rng.range(1000, if tier == Tier::Quick { 20_000 } else { 70_000 }),
            } as usize;
            let payload = if kind == "text" { (0..len).map(|i| b"hello w\xc3\xa9b "[i % 11]).collect::<Vec<u8>>() } else { rng.bytes(len) };
            // keep text payloads valid UTF-8
            let payload = if kind == "text" { String::from_utf8_lossy(&payload).replace('\u{fffd}', "?").into_bytes() } else { payload };
            let nfr = if (kind == "text" || kind == "binary") && rng.chance(1, 2) { rng.range(1, 4) as usize } else { 0 };
            let frags: Vec<usize> = (0..nfr).map(|_| rng.usize_below(payload.len().max(1))).collect();
            let mut inter = if nfr > 0 && rng.chance(1, 2) { vec![(rng.usize_below(nfr), if rng.chance(2, 3) { "ping" } else { "pong" }.to_string(), format!("i{}", rng.below(100)))] } else { vec![] };
            // (drawn from a separate stream so that older dimensions keep their values)
            if nfr > 0 && Rng::new(humsim::rng::mix(&[run_seed(seed, "C11", idx), 0xC11_0003, items.len() as u64])).chance(1, 8) {
                inter.push((nfr - 1, "close".to_string(), if rng.chance(1, 2) { "xx".to_string() } else { String::new() }));
            }
            let empty_frags = if kind == "text" || kind == "binary" {
                let mut r3 = Rng::new(humsim::rng::mix(&[run_seed(seed, "C11", idx), 0xC11_0004, items.len() as u64]));
                if r3.chance(1, 6) {
                    1 + r3.below(3) as u8
                } else {
                    0
                }
            } else {
                0
            };
            items.push(Item { kind: kind.into(), payload, frags, inter, key: rng.next_u64() as u32, empty_frags });
        }
        let ending = ["close", "close", "fin", "rst", "wait"][rng.usize_below(5)].to_string();
        if ending == "close" {
            items.push(Item { kind: "close".into(), payload: if rng.chance(1, 2) { vec![0x03, 0xe8, b'o', b'k'] } else { vec![] }, frags: vec![], inter: vec![], key: 7, empty_frags: 0 });
        }
        let (frames, _, _, _) = render(&items);
        let total: usize = frames.iter().map(|f| f.encode().len()).sum();
        let cuts: Vec<usize> = match rng.below(6) {
            0 => vec![],
            1 if total < 3000 => (1..total).collect(),
            2 | 3 => {
                // cuts inside headers: 1 byte into each frame, inside ext length, inside key
                let mut v = Vec::new();
                let mut off = 0;
                for f in &frames {
                    v.push(off + 1 + rng.usize_below(5));
                    off += f.encode().len();
                }
                v
            }
            _ => (0..rng.range(1, 6)).map(|_| 1 + rng.usize_below(total.max(2) - 1)).collect(),
        };
        let mut sim = SimParams::draw(&mut rng, true);
        sim.rx_capacity = None;
        sim.cpu_tick_max_ns = Some(400);
        sim.max_decisions = 600_000;
        let ws_key = match rng.below(10) {
            0 => None,
            1 => Some(String::new()),
            2 => Some("x".repeat(200)),
            3 => Some("dGhlIHNhbXBsZSBub25jZQ==".to_string()),
            // lengths at which key + GUID (36 bytes) ends at, just before or just after a SHA-1
            // padding boundary (remainders 55, 56, 57, 63, 0, 1 modulo 64)
            4 => Some((0..[19usize, 20, 21, 27, 28, 29, 83, 84, 85, 91, 92, 93, 147, 148, 149][rng.usize_below(15)]).map(|_| (0x21 + rng.below(0x5e) as u8) as char).collect()),
            _ => Some((0..rng.range(1, 30)).map(|_| (0x21 + rng.below(0x5e) as u8) as char).collect()),
        };
        let nonblocking = rng.chance(1, 2);
        let gap_us = [0u64, 0, 50, 4000, 100_000][rng.usize_below(5)];
        let mut echo = rng.chance(1, 2);
        let drop_after = if ending == "wait" { rng.range(1, 3) as usize } else if rng.chance(1, 6) { 1 } else { 0 };
        // dimensions added later are drawn from their own stream, so the older ones keep their values
        let mut rng2 = Rng::new(humsim::rng::mix(&[run_seed(seed, "C11", idx), 0xC11_0002]));
        let pushes: Vec<usize> = if rng2.chance(1, 3) { (0..rng2.range(1, 3)).map(|_| [10usize, 200, 5000, 20_000, 70_000][rng2.usize_below(5)]).collect() } else { vec![] };
        if !pushes.is_empty() {
            echo = false;
        }
        let switch_after_idle = if nonblocking && rng2.chance(1, 4) { rng2.range(1, 3) as u32 } else { 0 };
        let slow = (echo || !pushes.is_empty()) && rng2.chance(1, 2);
        let client_window = if slow { Some(rng2.range(512, 8192) as usize) } else { None };
        let reader_delay_ms = if slow && rng2.chance(1, 2) { rng2.range(1, 1500) } else { 0 };
        let mut rng3 = Rng::new(humsim::rng::mix(&[run_seed(seed, "C11", idx), 0xC11_0003]));
        let conn_timeout_ms = if rng3.chance(1, 2) { Some([1000u64, 1000, 2000, 5000][rng3.usize_below(4)]) } else { None };
        let idle_before_frames_ms = if rng3.chance(1, 3) { [100u64, 1500, 3000][rng3.usize_below(3)] } else { 0 };
        serde_json::to_value(Scn { sim, ws_key, nonblocking, items, cuts, gap_us, echo, drop_after, ending, pushes, switch_after_idle, client_window, reader_delay_ms, conn_timeout_ms, idle_before_frames_ms }).unwrap()
    }

    fn execute(&self, scenario: &Value) -> RunResult {
        let mut rr = RunResult { evals: 1, ..Default::default() };
        let mut scn: Scn = match serde_json::from_value(scenario.clone()) {
            Ok(s) => s,
            Err(e) => {
                rr.harness_error = Some(format!("bad scenario: {}", e));
                return rr;
            }
        };
        // totality under shrinking
        scn.pushes.truncate(4);
        for p in scn.pushes.iter_mut() {
            *p = (*p).min(70_000);
        }
        if !scn.pushes.is_empty() {
            scn.echo = false;
        }
        scn.reader_delay_ms = scn.reader_delay_ms.min(2000);
        // (the timeout legitimately bounds the wait for the handshake request itself, which takes up
        // to a few network latencies of at most 200 ms to arrive: never below 1 s)
        scn.conn_timeout_ms = scn.conn_timeout_ms.map(|t| t.max(1000));
        rr.count("c11.runs", 1);
        if let Some(t) = scn.conn_timeout_ms {
            let longest_pause_ms = scn.idle_before_frames_ms.max(scn.gap_us / 1000).max(scn.reader_delay_ms);
            if longest_pause_ms > t {
                rr.count("c11.peer_pauses_longer_than_connection_timeout", 1);
            }
        }
        let addr: SocketAddr = "127.0.0.1:8085".parse().unwrap();
        let (frames, want_msgs, pings, has_close) = render(&scn.items);
        let slog: Arc<Mutex<Vec<SEv>>> = Arc::new(Mutex::new(Vec::new()));
        let clog: Arc<Mutex<Option<RecvLog>>> = Arc::new(Mutex::new(None));
        let (scn2, slog2, clog2, frames2) = (scn.clone(), slog.clone(), clog.clone(), frames.clone());
        let outcome = sim::run(scn.sim.to_config(), move || {
            let scn = scn2;
            let (nb, echo, da, pu, sw, sl) = (scn.nonblocking, scn.echo, scn.drop_after, scn.pushes.clone(), scn.switch_after_idle, slog2.clone());
            let app: App<()> = App::new_with_config(2, ()).with_connection_timeout(scn.conn_timeout_ms.map(Duration::from_millis)).with_websocket_route("/ws", websocket_handler(move |ws: WebsocketStream, _s: Arc<()>| handler_loop(ws, nb, echo, da, pu.clone(), sw, sl.clone())));
            humsim::thread::spawn(move || {
                let _ = app.run(addr);
            });
            let mut s = match connect_retry(None, addr, 200) {
                Ok(s) => s,
                Err(_) => return,
            };
            let mut headers = vec![("Host".to_string(), "sim.test".to_string()), ("Upgrade".into(), "websocket".into()), ("Connection".into(), "Upgrade".into()), ("Sec-WebSocket-Version".into(), "13".into())];
            if let Some(k) = &scn.ws_key {
                headers.push(("Sec-WebSocket-Key".into(), k.clone()));
            }
            let req = ReqModel { method: "GET".into(), target: "/ws".into(), version: "HTTP/1.1".into(), headers, body: None }.render();
            let mut log = RecvLog::new();
            if let Some(w) = scn.client_window {
                s.sim_set_window(w.max(256));
            }
            write_all(&mut s, &req);
            // wait for the handshake response head (or the close)
            loop {
                if log.bytes.windows(4).any(|w| w == b"\r\n\r\n") || log.ended() {
                    break;
                }
                if !read_some(&mut s, &mut log, Duration::from_secs(10)) {
                    break;
                }
            }
            if !log.ended() && log.bytes.starts_with(b"HTTP/1.1 101") {
                let mut stream = Vec::new();
                for f in &frames2 {
                    stream.extend(f.encode());
                }
                // read concurrently (echoes of large messages would otherwise fill the windows)
                let mut rd = s.try_clone().expect("clone");
                let writer_done = Arc::new(std::sync::atomic::AtomicBool::new(false));
                let wd = writer_done.clone();
                let reader_delay = scn.reader_delay_ms;
                let reader = humsim::thread::spawn(move || {
                    let mut l = RecvLog::new();
                    if reader_delay > 0 {
                        humsim::thread::sleep(Duration::from_millis(reader_delay));
                    }
                    loop {
                        // patience is counted from the moment the writer has sent everything
                        let done_before = wd.load(std::sync::atomic::Ordering::SeqCst);
                        read_to_end(&mut rd, &mut l, Duration::from_secs(30));
                        if l.ended() || done_before {
                            break;
                        }
                    }
                    l
                });
                // the whole script is sent within about 5 virtual seconds
                let gap = scn.gap_us.min(5_000_000 / (scn.cuts.len() as u64 + 1));
                if scn.idle_before_frames_ms > 0 {
                    humsim::thread::sleep(Duration::from_millis(scn.idle_before_frames_ms.min(4000)));
                }
                send_segmented(&mut s, &stream, &scn.cuts, gap);
                writer_done.store(true, std::sync::atomic::Ordering::SeqCst);
                match scn.ending.as_str() {
                    "fin" => {
                        humsim::thread::sleep(Duration::from_millis(20));
                        let _ = s.shutdown(humsim::net::Shutdown::Write);
                    }
                    "rst" => {
                        humsim::thread::sleep(Duration::from_millis(20));
                        s.sim_reset();
                    }
                    _ => {}
                }
                if let Ok(l) = reader.join() {
                    log.bytes.extend(l.bytes);
                    log.eof = l.eof;
                    log.reset = l.reset;
                }
            } else {
                read_to_end(&mut s, &mut log, Duration::from_secs(5));
            }
            *clog2.lock().unwrap() = Some(log);
        });
        rr.absorb(&outcome);
        // probes
        if scn.ws_key.is_none() {
            rr.count("c11.no_key", 1);
        }
        if scn.nonblocking {
            rr.count("c11.nonblocking", 1);
        }
        rr.count("c11.pings", pings.len() as u64);
        if scn.items.iter().any(|i| !i.frags.is_empty()) {
            rr.count("c11.fragmented_messages", 1);
        }
        if scn.items.iter().any(|i| i.empty_frags != 0 && (i.kind == "text" || i.kind == "binary")) {
            rr.count("c11.empty_fragments", 1);
        }
        if scn.items.iter().any(|i| !i.inter.is_empty() && !i.frags.is_empty()) {
            rr.count("c11.interleaved_control", 1);
            if scn.items.iter().any(|i| !i.frags.is_empty() && i.inter.iter().any(|x| x.1 == "close")) {
                rr.count("c11.close_inside_fragmented_message", 1);
            }
        }
        if scn.echo {
            rr.count("c11.echo", 1);
        }
        if scn.items.iter().any(|i| i.payload.len() > 65_535) {
            rr.count("c11.large_payload", 1);
        }
        match scn.ending.as_str() {
            "close" => rr.count("c11.close_ending", 1),
            "wait" => rr.count("c11.server_drop_ending", 1),
            _ => rr.count("c11.abrupt_ending", 1),
        }
        {
            let mut off = 0;
            for f in &frames {
                let l = f.encode().len();
                if scn.cuts.iter().any(|&c| c > off && c < off + 2.min(l)) {
                    rr.count("c11.cut_inside_header", 1);
                    break;
                }
                off += l;
            }
        }
        let mode = if scn.nonblocking && scn.switch_after_idle > 0 { "nonblocking-then-blocking" } else if scn.nonblocking { "nonblocking" } else { "blocking" };
        if scn.nonblocking && scn.switch_after_idle > 0 {
            rr.count("c11.nonblocking_then_blocking", 1);
        }
        if scn.client_window.is_some() {
            rr.count("c11.slow_reader", 1);
        }
        if outcome.panics.iter().any(|p| p.thread != "driver") {
            let p = &outcome.panics[0];
            let site = p.location.rsplit('/').next().unwrap_or("").split(':').take(2).collect::<Vec<_>>().join(":");
            rr.violate("C11/R2", format!("server-panicked:{}", site), format!("{}: {} at {}", p.thread, p.message, p.location));
        }
        if outcome.status != sim::EndStatus::Completed {
            rr.violate("C11/R0", format!("run-did-not-complete:{:?}:{}", outcome.status, mode), format!("{:?}", outcome.threads.iter().filter(|t| t.state != "finished").map(|t| format!("{}:{}", t.name, t.op)).collect::<Vec<_>>()));
            return rr;
        }
        let log = match clog.lock().unwrap().clone() {
            Some(l) => l,
            None => {
                rr.harness_error = Some("client did not finish".into());
                return rr;
            }
        };
        let sev = slog.lock().unwrap().clone();
        // R1 handshake
        let head = parse_one(&log.bytes, 0, log.ended());
        let upgraded = matches!(&head, Ok(Some(r)) if r.status == 101);
        match (&scn.ws_key, &head) {
            (None, Ok(Some(r))) if r.status == 101 => rr.violate("C11/R1", "upgraded-without-key", "a request without Sec-WebSocket-Key was answered 101".to_string()),
            (None, _) => {}
            (Some(k), Ok(Some(r))) => {
                if r.status != 101 {
                    rr.violate("C11/R1", "handshake-not-101", format!("status {}", r.status));
                } else {
                    let want = ws::accept_key(k);
                    if r.header("Sec-WebSocket-Accept") != Some(want.as_str()) {
                        rr.violate("C11/R1", "wrong-accept-key", format!("key {:?}: Sec-WebSocket-Accept {:?}, expected {:?}", k, r.header("Sec-WebSocket-Accept"), want));
                    }
                    if !r.header("Upgrade").map(|u| u.eq_ignore_ascii_case("websocket")).unwrap_or(false) || !r.header("Connection").map(|u| u.eq_ignore_ascii_case("upgrade")).unwrap_or(false) {
                        rr.violate("C11/R1", "upgrade-headers-missing", format!("{:?}", r.headers));
                    }
                }
            }
            (Some(_), other) => rr.violate("C11/R1", "no-handshake-response", format!("{:?}; received {}", other.as_ref().err(), show_bytes(&log.bytes[..log.bytes.len().min(120)]))),
        }
        if !upgraded {
            if scn.ws_key.is_none() && !sev.is_empty() {
                rr.violate("C11/R1", "handler-ran-without-upgrade", format!("{:?}", sev.len()));
            }
            return rr;
        }
        let after = match &head {
            Ok(Some(r)) => r.end,
            _ => 0,
        };
        let wire = &log.bytes[after..];
        // R2: everything the server wrote is a sequence of well-formed unmasked frames
        let (out_frames, bad) = match ws::decode_all(wire) {
            Ok(f) => (f, None),
            Err((f, at, why)) => (f, Some((at, why))),
        };
        let abrupt = scn.ending == "fin" || scn.ending == "rst";
        let bad = match bad {
            // after an abortive end by the client the last frame may be cut short
            Some((_, "truncated frame")) if abrupt => None,
            b => b,
        };
        if let Some((at, why)) = bad {
            // which reply produced it?
            let culprit = if !pings.is_empty() && out_frames.iter().filter(|f| f.opcode == 0xA).count() < pings.len() { "pong-reply" } else if has_close { "close-reply" } else { "other" };
            rr.violate("C11/R2", format!("server-wrote-malformed-frames:{}:{}", culprit, mode), format!("after the 101, byte {} of what the server wrote is not a frame ({}); wrote {}", at, why, show_bytes(&wire[..wire.len().min(160)])));
            return rr;
        }
        if let Some(f) = out_frames.iter().find(|f| f.mask.is_some()) {
            rr.violate("C11/R2", "server-frame-masked", format!("opcode {}", f.opcode));
        }
        // R7 nothing-yet only when no frame has started to arrive
        if let Some(SEv::NoneWithUnread(n)) = sev.iter().find(|e| matches!(e, SEv::NoneWithUnread(_))) {
            rr.violate("C11/R7", "nothing-yet-although-bytes-delivered", format!("recv_nonblocking reported nothing-yet while {} byte(s) of a data frame were already delivered", n));
        }
        // R3: messages received == reference reassembly (prefix if the handler returned early / abrupt end)
        let got_msgs: Vec<(bool, Vec<u8>)> = sev.iter().filter_map(|e| if let SEv::Msg(t, b) = e { Some((*t, b.clone())) } else { None }).collect();
        let limit = if scn.drop_after > 0 { scn.drop_after.min(want_msgs.len()) } else { want_msgs.len() };
        let is_prefix = got_msgs.len() <= want_msgs.len() && got_msgs.iter().zip(want_msgs.iter()).all(|(a, b)| a == b);
        if !is_prefix {
            let k = got_msgs.iter().zip(want_msgs.iter()).position(|(a, b)| a != b).unwrap_or(got_msgs.len().min(want_msgs.len()));
            let what = if k < got_msgs.len() && k < want_msgs.len() { if got_msgs[k].0 != want_msgs[k].0 { "text-binary-flag" } else if got_msgs[k].1.len() != want_msgs[k].1.len() { "length" } else { "content" } } else { "extra-message" };
            rr.violate("C11/R3", format!("received-messages-differ:{}:{}", what, mode), format!("message {}: server-side receive returned {:?} messages, the client sent {:?} (sizes {:?} vs {:?})", k, got_msgs.len(), want_msgs.len(), got_msgs.iter().map(|m| m.1.len()).collect::<Vec<_>>(), want_msgs.iter().map(|m| m.1.len()).collect::<Vec<_>>()));
        } else if got_msgs.len() < limit && !abrupt {
            rr.violate("C11/R3", format!("messages-missing:{}", mode), format!("server-side receive returned {} of {} messages; server events {:?}", got_msgs.len(), limit, sev.iter().map(|e| match e { SEv::Msg(_, b) => format!("msg({})", b.len()), x => format!("{:?}", x) }).collect::<Vec<_>>()));
        }
        // R4: one Pong per Ping, same payload, in order (for pings the server got to read)
        let pongs: Vec<&RFrame> = out_frames.iter().filter(|f| f.opcode == 0xA).collect();
        let read_everything = !abrupt && scn.drop_after == 0;
        if pongs.len() > pings.len() || (read_everything && pongs.len() < pings.len()) {
            rr.violate("C11/R4", format!("pong-count:{}", mode), format!("{} pings sent, {} pongs received", pings.len(), pongs.len()));
        }
        for (i, p) in pongs.iter().enumerate() {
            if pings.get(i).map(|x| x != &p.payload).unwrap_or(false) {
                rr.violate("C11/R4", "pong-payload-differs", format!("ping {} payload {:?}, pong payload {:?}", i, pings[i], p.payload));
            }
            if !p.fin {
                rr.violate("C11/R4", "pong-not-final", String::new());
            }
        }
        // data messages the server wrote (echoes or server-initiated ones), reassembled
        let echoes: Vec<(bool, Vec<u8>)> = {
                let mut v = Vec::new();
                let mut cur: Option<(bool, Vec<u8>)> = None;
                for f in out_frames.iter().filter(|f| f.opcode <= 2) {
                    if f.opcode != 0 {
                        cur = Some((f.opcode == 1, f.payload.clone()));
                    } else if let Some(c) = cur.as_mut() {
                        c.1.extend(&f.payload);
                    }
                    if f.fin {
                        if let Some(c) = cur.take() {
                            v.push(c);
                        }
                    }
                }
            v
        };
        if scn.echo {
            let n = echoes.len().min(got_msgs.len());
            if echoes[..n] != got_msgs[..n] || echoes.len() > got_msgs.len() {
                rr.violate("C11/R2", "echo-differs", format!("{} echoes for {} messages", echoes.len(), got_msgs.len()));
            }
        }
        // server-initiated messages: a send never fails while the client is connected, and every
        // message whose send returned Ok is on the wire intact and in order
        if !scn.pushes.is_empty() {
            let pushed: Vec<(usize, bool)> = sev.iter().filter_map(|e| if let SEv::Pushed(k, ok) = e { Some((*k, *ok)) } else { None }).collect();
            rr.count("c11.server_initiated_messages", pushed.len() as u64);
            let want: Vec<(bool, Vec<u8>)> = pushed.iter().filter(|(_, ok)| *ok).map(|(k, _)| (false, push_payload(*k, scn.pushes[*k]))).collect();
            if !abrupt {
                if let Some((k, _)) = pushed.iter().find(|(_, ok)| !*ok) {
                    rr.violate("C11/R2", format!("server-send-failed:{}", mode), format!("send of server-initiated message {} ({} bytes) returned an error although the client was connected and reading (window {:?}, reader delay {} ms); the client received {} data message(s)", k, scn.pushes[*k], scn.client_window, scn.reader_delay_ms, echoes.len()));
                } else if echoes != want {
                    rr.violate("C11/R2", format!("server-message-differs:{}", mode), format!("the handler sent {:?}-byte messages, the client received {:?}-byte data messages", want.iter().map(|m| m.1.len()).collect::<Vec<_>>(), echoes.iter().map(|m| m.1.len()).collect::<Vec<_>>()));
                }
            } else if echoes.len() > want.len() + pushed.iter().filter(|(_, ok)| !*ok).count() || echoes.iter().zip(pushed.iter()).any(|(e, (k, _))| e.1 != push_payload(*k, scn.pushes[*k])) {
                rr.violate("C11/R2", format!("server-message-differs:{}", mode), "a data message received by the client is not one the handler sent".to_string());
            }
        }
        // R5 / R6: close handling
        let closes = out_frames.iter().filter(|f| f.opcode == 8).count();
        let server_dropped_first = scn.drop_after > 0 && want_msgs.len() >= scn.drop_after && got_msgs.len() >= scn.drop_after;
        if has_close && !server_dropped_first && !abrupt {
            if closes == 0 {
                rr.violate("C11/R5", format!("close-not-answered:{}", mode), "the client's Close frame was not answered by a Close frame".to_string());
            }
            if !sev.iter().any(|e| *e == SEv::Closed) {
                rr.violate("C11/R5", format!("close-not-reported:{}", mode), format!("receive did not report connection-closed; events {:?}", sev.iter().map(|e| match e { SEv::Msg(_, b) => format!("msg({})", b.len()), x => format!("{:?}", x) }).collect::<Vec<_>>()));
            }
        }
        if server_dropped_first && !abrupt && closes == 0 {
            rr.violate("C11/R6", format!("drop-sends-no-close:{}", mode), format!("the handler returned after {} message(s) without a prior close, but no Close frame was written; server wrote {}", scn.drop_after, show_bytes(&wire[..wire.len().min(80)])));
        }
        // a client that half-closes (FIN) without a Close frame and keeps reading: receive fails at
        // the end of the stream, the handler returns, and dropping the stream sends the Close
        let recv_failed_at_eof = sev.iter().any(|e| matches!(e, SEv::OtherErr(s) if s == "ReadError"));
        if scn.ending == "fin" && !has_close && !server_dropped_first && recv_failed_at_eof {
            rr.count("c11.drop_after_receive_error_at_half_close", 1);
            if closes == 0 {
                rr.violate("C11/R6", format!("drop-after-receive-error-sends-no-close:{}", mode), format!("the client half-closed without a Close frame and kept reading; receive reported ReadError and the handler returned, but no Close frame was written; server wrote {}", show_bytes(&wire[..wire.len().min(80)])));
            }
        }
        if closes > 1 {
            rr.violate("C11/R5", "more-than-one-close", format!("{} close frames", closes));
        }
        let nontrivial = (frames.len() >= 2 && !scn.cuts.is_empty()) || !pings.is_empty();
        if nontrivial {
            rr.shapes.push(fnv64(format!("{:?}|{}|{}|{}|{:?}|{}", frames.iter().map(|f| (f.opcode, f.fin, f.payload.len().min(130))).collect::<Vec<_>>(), scn.cuts.len().min(9), mode, scn.ending, out_frames.iter().map(|f| f.opcode).collect::<Vec<_>>(), scn.drop_after).as_bytes()));
        }
        rr.sample = Some(json!({"key": scn.ws_key, "mode": mode, "ending": scn.ending, "drop_after": scn.drop_after, "client_frames": frames.iter().map(|f| format!("op{} fin{} len{}", f.opcode, f.fin, f.payload.len())).collect::<Vec<_>>(), "cuts": scn.cuts.len(), "server_frames": out_frames.iter().map(|f| format!("op{} len{}", f.opcode, f.payload.len())).collect::<Vec<_>>(), "server_events": sev.iter().map(|e| match e { SEv::Msg(t, b) => format!("msg(text={},{})", t, b.len()), x => format!("{:?}", x) }).collect::<Vec<_>>()}));
        rr
    }
}
