use crate::common::Prop;

pub mod c01;
pub mod c08;

pub fn all() -> Vec<Box<dyn Prop>> {
    vec![Box::new(c01::C01), Box::new(c08::C08)]
}
