use crate::common::Prop;

pub mod c01;
#[cfg(not(feature = "tk"))]
pub mod c02;
#[cfg(not(feature = "tk"))]
pub mod c03;
pub mod c04;
#[cfg(not(feature = "tk"))]
pub mod c07;
#[cfg(not(feature = "tk"))]
pub mod c08;
#[cfg(not(feature = "tk"))]
pub mod c09;
#[cfg(not(feature = "tk"))]
pub mod c10;
#[cfg(not(feature = "tk"))]
pub mod c11;
#[cfg(not(feature = "tk"))]
pub mod c12;
#[cfg(not(feature = "tk"))]
pub mod c16;
#[cfg(not(feature = "tk"))]
pub mod c17;
#[cfg(not(feature = "tk"))]
pub mod c19;
#[cfg(not(feature = "tk"))]
pub mod c20;
#[cfg(feature = "tk")]
pub mod tk;

#[cfg(not(feature = "tk"))]
pub fn all() -> Vec<Box<dyn Prop>> {
    vec![
        Box::new(c01::C01), Box::new(c02::C02), Box::new(c03::C03), Box::new(c04::C04), Box::new(c07::C07), Box::new(c08::C08), Box::new(c09::C09),
        Box::new(c10::C10), Box::new(c11::C11), Box::new(c12::C12), Box::new(c16::C16), Box::new(c17::C17), Box::new(c19::C19), Box::new(c20::C20),
    ]
}

/// The tokio twin (built in /verif/tk): the same properties on the async runtime.
#[cfg(feature = "tk")]
pub fn all() -> Vec<Box<dyn Prop>> {
    vec![Box::new(tk::C01T), Box::new(tk::C02T), Box::new(tk::C04T), Box::new(tk::C20T)]
}
