use crate::common::Prop;

pub mod c01;
pub mod c02;
pub mod c03;
pub mod c04;
pub mod c07;
pub mod c08;
pub mod c09;
pub mod c10;
pub mod c11;
pub mod c12;
pub mod c16;
pub mod c17;
pub mod c19;
pub mod c20;

pub fn all() -> Vec<Box<dyn Prop>> {
    vec![Box::new(c01::C01), Box::new(c02::C02), Box::new(c03::C03), Box::new(c04::C04), Box::new(c07::C07), Box::new(c08::C08), Box::new(c09::C09), Box::new(c10::C10), Box::new(c11::C11), Box::new(c12::C12), Box::new(c16::C16), Box::new(c17::C17), Box::new(c19::C19), Box::new(c20::C20)]
}
