use crate::common::Prop;

pub mod c08;

pub fn all() -> Vec<Box<dyn Prop>> {
    vec![Box::new(c08::C08)]
}
