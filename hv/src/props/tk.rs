//! The tokio twin: C01, C02 and C20 on Humphrey's async runtime (`--features tokio`).
//!
//! Simulator = tokio's own `current_thread` runtime with a paused clock (virtual time with
//! auto-advance), a seeded runtime RNG (`select!` branch order), and `humsim::tokio_net`
//! (in-memory TCP with seeded latency, segmentation, short reads, FIN/RST).  Task
//! interleaving is decided by seeded delivery delays at every await on the transport; the
//! single-threaded scheduler is deterministic given those.

use crate::common::*;
use crate::props::c01::{self, check_client, check_handler_log, expectations, gen_client, render, Client, ClientOut, Expect, HandlerEv, Scn};
use crate::refs::http::*;
use crate::simhttp::RecvLog;
use humphrey::http::cors::Cors;
use humphrey::http::method::Method;
use humphrey::http::{Request, Response, StatusCode};
use humphrey::{App, SubApp};
use humsim::net::Seg;
use humsim::rng::Rng;
use humsim::tokio_net::{self, TcpListener, TcpStream};
use serde::{Deserialize, Serialize};
use serde_json::{json, Value};
use std::net::SocketAddr;
use std::sync::{Arc, Mutex};
use std::time::Duration;
use tokio::io::{AsyncReadExt, AsyncWriteExt};
use tokio_util::sync::CancellationToken;

static PANICS: Mutex<Vec<String>> = Mutex::new(Vec::new());
/// bumped on every successful client read (progress detection across a pinned reader future)
static PROGRESS: std::sync::atomic::AtomicU64 = std::sync::atomic::AtomicU64::new(0);

fn install_hook() {
    std::panic::set_hook(Box::new(|info| {
        let msg = if let Some(s) = info.payload().downcast_ref::<&str>() { s.to_string() } else if let Some(s) = info.payload().downcast_ref::<String>() { s.clone() } else { String::new() };
        let loc = info.location().map(|l| format!("{}:{}:{}", l.file(), l.line(), l.column())).unwrap_or_default();
        PANICS.lock().unwrap().push(format!("{} at {}", msg, loc));
    }));
}

fn net_cfg(sim: &SimParams) -> tokio_net::Config {
    tokio_net::Config {
        seed: sim.seed,
        epoch_secs: sim.epoch_secs,
        latency_min_us: 50,
        latency_max_us: sim.latency_max_ns.map(|n| (n / 1000).max(50)).unwrap_or(200),
        rx_capacity: 256 * 1024,
        short_read_permille: sim.short_read_permille,
        short_write_permille: sim.short_write_permille,
        default_seg: sim.default_seg.as_deref().map(parse_seg).unwrap_or(Seg::Whole),
    }
}

/// Run `fut` on a fresh seeded, paused, single-threaded runtime; None = no progress (the
/// virtual watchdog of `limit_s` seconds fired while everything was idle).
fn run_rt<F: std::future::Future>(seed: u64, limit_s: u64, fut: F) -> Option<F::Output> {
    let rt = tokio::runtime::Builder::new_current_thread().enable_time().start_paused(true).rng_seed(tokio::runtime::RngSeed::from_bytes(&seed.to_le_bytes())).build().expect("runtime");
    let r = rt.block_on(async { tokio::time::timeout(Duration::from_secs(limit_s), fut).await.ok() });
    drop(rt);
    r
}

fn virt_ns(t0: tokio::time::Instant) -> u64 {
    t0.elapsed().as_nanos() as u64
}

async fn read_more(s: &mut tokio::io::ReadHalf<TcpStream>, log: &mut RecvLog, t0: tokio::time::Instant, timeout: Duration) -> bool {
    if log.ended() {
        return false;
    }
    let mut buf = [0u8; 4096];
    match tokio::time::timeout(timeout, s.read(&mut buf)).await {
        Err(_) => false,
        Ok(Ok(0)) => {
            log.eof = true;
            false
        }
        Ok(Ok(n)) => {
            PROGRESS.fetch_add(1, std::sync::atomic::Ordering::SeqCst);
            log.reads.push((log.bytes.len(), 0, virt_ns(t0)));
            log.bytes.extend_from_slice(&buf[..n]);
            true
        }
        Ok(Err(e)) => {
            if e.kind() == std::io::ErrorKind::ConnectionReset {
                log.reset = true;
            } else {
                log.other_error = Some(e.to_string());
            }
            false
        }
    }
}

async fn read_n_responses(s: &mut tokio::io::ReadHalf<TcpStream>, log: &mut RecvLog, want: usize, t0: tokio::time::Instant, timeout: Duration) -> usize {
    loop {
        let (rs, end) = parse_stream(&log.bytes, log.ended());
        if rs.len() >= want || log.ended() || matches!(end, StreamEnd::Garbage { .. }) {
            return rs.len();
        }
        if !read_more(s, log, t0, timeout).await && !log.ended() {
            return parse_stream(&log.bytes, false).0.len();
        }
    }
}

async fn send_cut(w: &mut tokio::io::WriteHalf<TcpStream>, bytes: &[u8], cuts: &[usize], gap_us: u64) -> bool {
    send_cut_timed(w, bytes, cuts, gap_us, tokio::time::Instant::now(), &mut Vec::new()).await
}

/// `send_cut`, also recording for every segment (end offset, virtual time just before it was written).
async fn send_cut_timed(w: &mut tokio::io::WriteHalf<TcpStream>, bytes: &[u8], cuts: &[usize], gap_us: u64, t0: tokio::time::Instant, times: &mut Vec<(usize, u64)>) -> bool {
    let mut ends: Vec<usize> = cuts.iter().copied().filter(|&c| c > 0 && c < bytes.len()).collect();
    ends.sort_unstable();
    ends.dedup();
    ends.push(bytes.len());
    let mut start = 0;
    for e in ends {
        if e <= start {
            continue;
        }
        times.push((e, virt_ns(t0)));
        if w.write_all(&bytes[start..e]).await.is_err() {
            return false;
        }
        start = e;
        if e < bytes.len() && gap_us > 0 {
            tokio::time::sleep(Duration::from_micros(gap_us)).await;
        }
    }
    true
}

// ------------------------------------------------------------------ C01 on tokio

pub struct C01T;

struct HState {
    log: Mutex<Vec<HandlerEv>>,
}

fn note(req: &Request, st: &Arc<HState>) {
    st.log.lock().unwrap().push(HandlerEv {
        cid: req.headers.get("X-Client").unwrap_or("?").to_string(),
        seq: req.headers.get("X-Seq").unwrap_or("?").to_string(),
        method: req.method.to_string(),
        uri: req.uri.clone(),
        query: req.query.clone(),
        body: req.content.clone().unwrap_or_default(),
    });
}

fn build_app(cors: &str, error_pages: &str) -> (App<HState>, Arc<HState>) {
    let app: App<HState> = App::new_with_config(HState { log: Mutex::new(Vec::new()) });
    let app = if error_pages == "empty" { app.with_error_handler(crate::props::c01::empty_error_pages) } else { app };
    let st = app.get_state();
    let cors_cfg = match cors {
        "wildcard" => Cors::wildcard(),
        "list" => Cors::new().with_origin("https://a.example").with_origin("https://b.example").with_method(Method::Get).with_method(Method::Post).with_header("X-Custom"),
        // entries that are substrings of earlier entries (a de-duplication by substring would drop them)
        "nested" => Cors::new().with_origin("http://localhost:3000").with_origin("http://localhost").with_method(Method::Get).with_method(Method::Post).with_method(Method::Put).with_header("Accept-Language").with_header("Accept").with_header("X-Auth-Token").with_header("X-Auth"),
        _ => Cors::new(),
    };
    let app = app
        .with_route("/ok", |req: Request, st: Arc<HState>| async move {
            note(&req, &st);
            Response::new(StatusCode::OK, "ok-body")
        })
        .with_route("/echo", |req: Request, st: Arc<HState>| async move {
            note(&req, &st);
            let mut b = format!("{}|{}|{}|", req.method, req.uri, req.query).into_bytes();
            if let Some(c) = &req.content {
                b.extend(c);
            }
            Response::new(StatusCode::OK, b)
        })
        .with_route("/empty", |req: Request, st: Arc<HState>| async move {
            note(&req, &st);
            Response::empty(StatusCode::OK)
        })
        .with_route("/big", |req: Request, st: Arc<HState>| async move {
            note(&req, &st);
            Response::new(StatusCode::OK, c01::big_body())
        })
        .with_route("/huge", |req: Request, st: Arc<HState>| async move {
            note(&req, &st);
            Response::new(StatusCode::OK, c01::huge_body())
        })
        .with_route("/slow", |req: Request, st: Arc<HState>| async move {
            note(&req, &st);
            tokio::time::sleep(Duration::from_millis(30)).await;
            Response::new(StatusCode::OK, "slow-body")
        })
        .with_route("/panic", |req: Request, st: Arc<HState>| async move {
            note(&req, &st);
            if req.uri.len() < 100 {
                panic!("handler panics on purpose");
            }
            Response::empty(StatusCode::OK)
        })
        .with_route("/cors/*", |req: Request, st: Arc<HState>| async move {
            note(&req, &st);
            Response::new(StatusCode::OK, "cors-body")
        })
        .with_cors_config("/cors/*", cors_cfg);
    (app, st)
}

async fn run_client_tk(cid: usize, c: Client, expects: Vec<Expect>, addr: SocketAddr, t0: tokio::time::Instant) -> ClientOut {
    let mut out = ClientOut::default();
    if c.start_delay_us > 0 {
        tokio::time::sleep(Duration::from_micros(c.start_delay_us)).await;
    }
    let mut s = None;
    for _ in 0..200 {
        match TcpStream::connect(addr).await {
            Ok(x) => {
                s = Some(x);
                break;
            }
            Err(_) => tokio::time::sleep(Duration::from_millis(1)).await,
        }
    }
    let s = match s {
        Some(s) => s,
        None => {
            out.connect_error = Some("refused".into());
            return out;
        }
    };
    if let Some(w) = c.window {
        s.sim_set_window(w);
    }
    out.connected_ns = virt_ns(t0);
    let (mut rd, mut wr) = tokio::io::split(s);
    let mut log = RecvLog::new();
    let rendered: Vec<Vec<u8>> = c.reqs.iter().enumerate().map(|(i, r)| render(r, cid, i)).collect();
    let mut sent: Vec<Option<(u64, u64)>> = vec![None; c.reqs.len()];
    let mut idle_start = vec![0u64; c.reqs.len()];
    let wait = Duration::from_secs(20);
    let mut alive = true;
    if c.mode == "streamed" {
        let mut all = Vec::new();
        let mut ends_of: Vec<usize> = Vec::new();
        for (i, r) in rendered.iter().enumerate() {
            let mut r = r.clone();
            if i + 1 == rendered.len() {
                if let Some(t) = c.truncate_last {
                    r.truncate(t.min(r.len()));
                }
            }
            all.extend(r);
            ends_of.push(all.len());
        }
        let mut times: Vec<(usize, u64)> = Vec::new();
        let want = expects.len();
        let cuts = c.cuts.clone();
        let gap = c.gap_us;
        let started = virt_ns(t0);
        let mut write_result = (true, started, started);
        {
            // the reader fills `log` in place, so whatever it has read survives a timeout
            let reader = read_n_responses(&mut rd, &mut log, want, t0, Duration::from_secs(3600));
            tokio::pin!(reader);
            let times_ref = &mut times;
            let writer = async {
                let ok = send_cut_timed(&mut wr, &all, &cuts, gap, t0, times_ref).await;
                (ok, started, virt_ns(t0))
            };
            let mut reader_done = false;
            tokio::select! {
                w = writer => { write_result = w; }
                _ = &mut reader => { reader_done = true; write_result = (true, started, virt_ns(t0)); }
            };
            // patience is counted from the end of the writing
            if !reader_done {
                // give up only after `wait` without a single byte arriving
                let mut before = 0u64;
                loop {
                    if tokio::time::timeout(wait, &mut reader).await.is_ok() {
                        break;
                    }
                    let now = PROGRESS.load(std::sync::atomic::Ordering::SeqCst);
                    if now == before {
                        break;
                    }
                    before = now;
                }
            }
        }
        let (ok, a, b) = write_result;
        for (i, x) in sent.iter_mut().enumerate() {
            let last = ends_of.get(i).copied().unwrap_or(0);
            *x = Some((if last > 0 { crate::simhttp::sent_not_before(&times, last - 1, a) } else { a }, b));
        }
        alive = ok;
    } else {
        let mut offset = 0usize;
        let mut last_resp = virt_ns(t0);
        for (i, bytes) in rendered.iter().enumerate() {
            let is_trunc = c.truncate_last.is_some() && i + 1 == rendered.len();
            let mut bytes = bytes.clone();
            if is_trunc {
                bytes.truncate(c.truncate_last.unwrap().min(bytes.len()));
            }
            idle_start[i] = last_resp;
            if c.reqs[i].idle_before_ms > 0 {
                read_n_responses(&mut rd, &mut log, i + 1, t0, Duration::from_millis(c.reqs[i].idle_before_ms)).await;
            }
            if log.ended() || (i >= expects.len() && !is_trunc) {
                break;
            }
            let cuts: Vec<usize> = c.cuts.iter().filter(|&&x| x > offset && x < offset + bytes.len()).map(|x| x - offset).collect();
            let a = virt_ns(t0);
            let mut times: Vec<(usize, u64)> = Vec::new();
            let ok = send_cut_timed(&mut wr, &bytes, &cuts, c.gap_us, t0, &mut times).await;
            sent[i] = Some((if bytes.is_empty() { a } else { crate::simhttp::sent_not_before(&times, bytes.len() - 1, a) }, virt_ns(t0)));
            offset += rendered[i].len();
            if is_trunc {
                break;
            }
            let n = read_n_responses(&mut rd, &mut log, i + 1, t0, wait).await;
            if !ok {
                alive = false;
                break;
            }
            last_resp = virt_ns(t0);
            if n < i + 1 {
                break;
            }
        }
    }
    let model_open = matches!(expects.last(), Some(Expect::Normal { keep: true, .. })) && expects.len() == c.reqs.len() - usize::from(c.truncate_last.is_some());
    let (rs, _) = parse_stream(&log.bytes, log.ended());
    let got_all = rs.len() >= expects.len();
    if got_all && c.truncate_last.is_none() && (alive || !model_open) {
        if model_open {
            while read_more(&mut rd, &mut log, t0, Duration::from_millis(50)).await {}
            let (rs2, end2) = parse_stream(&log.bytes, false);
            out.open_probe = Some(!log.ended() && rs2.len() == rs.len() && !matches!(end2, StreamEnd::Garbage { .. }));
        } else if !expects.is_empty() {
            while read_more(&mut rd, &mut log, t0, Duration::from_secs(10)).await {}
            out.closed_observed = Some(log.eof || log.reset);
        }
    }
    match c.ending.as_str() {
        "halfclose" => {
            let _ = wr.shutdown().await;
            while read_more(&mut rd, &mut log, t0, Duration::from_secs(5)).await {}
        }
        "wait" => {
            if !model_open || c.truncate_last.is_some() {
                while read_more(&mut rd, &mut log, t0, Duration::from_secs(5)).await {}
            }
        }
        _ => {}
    }
    let s = rd.unsplit(wr);
    if c.ending == "rst" {
        s.sim_reset();
    }
    drop(s);
    out.log = Some(log);
    out.sent = sent;
    out.idle_start_ns = idle_start;
    out.finished = true;
    out
}

impl Prop for C01T {
    fn id(&self) -> &'static str {
        "C01T"
    }
    fn level(&self) -> &'static str {
        "exploration"
    }
    fn runs(&self, tier: Tier) -> u64 {
        match tier {
            Tier::Quick => 16_000,
            Tier::Thorough => 800_000,
        }
    }
    fn rule(&self) -> &'static str {
        "Tokio twin of C01: the same generated client scripts and oracle against `App::run().await` on a paused-clock current_thread runtime over humsim::tokio_net (no connection timeout exists on this runtime, so idle gaps never expect 408)."
    }
    fn assumptions(&self) -> Vec<String> {
        vec!["tokio's single-threaded scheduler is deterministic given the seeded delivery delays, the seeded runtime RNG and the paused clock".into()]
    }
    fn expected_counters(&self) -> Vec<&'static str> {
        vec!["c01t.requests", "c01t.clients_streamed", "c01t.two_requests_share_segment", "c01t.panic_requests", "tnet.segmented_write", "tnet.short_read"]
    }
    fn real_vs_stub(&self) -> (Vec<&'static str>, Vec<&'static str>) {
        (vec!["humphrey (tokio feature): App::run, client_handler, async Request::from_buffered, Response serialisation, tokio::spawn per connection"], vec!["tokio::net (humsim::tokio_net), tokio clock (paused), runtime RNG (seeded)"])
    }
    fn generate(&self, seed: u64, idx: u64, tier: Tier) -> Value {
        let mut rng = Rng::new(run_seed(seed, "C01T", idx));
        let nclients = match rng.below(4) {
            0..=1 => 1,
            2 => 2,
            _ => rng.range(2, 4),
        } as usize;
        let clients: Vec<Client> = (0..nclients).map(|_| gen_client(&mut rng, tier, None)).collect();
        let mut sim = SimParams::draw(&mut rng, true);
        sim.rx_capacity = None;
        let scn = Scn { sim, threads: 1, timeout_ms: None, cors: ["wildcard", "list", "none", "nested"][rng.usize_below(4)].to_string(), clients, error_pages: if Rng::new(humsim::rng::mix(&[rng.next_u64(), 0xC01_0006])).chance(1, 4) { "empty".into() } else { String::new() } };
        serde_json::to_value(scn).unwrap()
    }
    fn execute(&self, scenario: &Value) -> RunResult {
        let mut rr = RunResult { evals: 1, ..Default::default() };
        let mut scn: Scn = match serde_json::from_value(scenario.clone()) {
            Ok(s) => s,
            Err(e) => {
                rr.harness_error = Some(format!("bad scenario: {}", e));
                return rr;
            }
        };
        scn.timeout_ms = None;
        install_hook();
        PANICS.lock().unwrap().clear();
        let expects: Vec<Vec<Expect>> = scn.clients.iter().map(|c| expectations(&scn, c)).collect();
        let addr: SocketAddr = "127.0.0.1:8080".parse().unwrap();
        let (scn2, expects2) = (scn.clone(), expects.clone());
        let hstate: Arc<Mutex<Option<Arc<HState>>>> = Arc::new(Mutex::new(None));
        let hs2 = hstate.clone();
        let result = run_rt(scn.sim.seed, 7200, async move {
            tokio_net::reset(net_cfg(&scn2.sim));
            let t0 = tokio::time::Instant::now();
            let (app, st) = build_app(&scn2.cors, &scn2.error_pages);
            *hs2.lock().unwrap() = Some(st);
            tokio::spawn(async move {
                let _ = app.run(addr).await;
            });
            let mut hs = Vec::new();
            for (cid, c) in scn2.clients.iter().enumerate() {
                hs.push(tokio::spawn(run_client_tk(cid, c.clone(), expects2[cid].clone(), addr, t0)));
            }
            let mut outs = Vec::new();
            for h in hs {
                outs.push(h.await.unwrap_or_default());
            }
            (outs, virt_ns(t0))
        });
        for (k, v) in tokio_net::finish() {
            rr.count(&k, v);
        }
        let (outs, vns) = match result {
            Some(x) => x,
            None => {
                rr.violate("C01/R8", "no-progress:tokio", "nothing was runnable and no timer was pending for 7200 virtual seconds: clients could not finish".to_string());
                return rr;
            }
        };
        rr.virtual_ns = vns;
        let mut shape = String::new();
        let mut client_ok = Vec::new();
        let mut nontrivial = false;
        for (cid, c) in scn.clients.iter().enumerate() {
            rr.count("c01t.requests", c.reqs.len() as u64);
            if c.mode == "streamed" {
                rr.count("c01t.clients_streamed", 1);
            }
            let lens: Vec<usize> = c.reqs.iter().enumerate().map(|(i, r)| render(r, cid, i).len()).collect();
            let mut bounds = Vec::new();
            let mut off = 0;
            for l in &lens {
                off += l;
                bounds.push(off);
            }
            let cuts: std::collections::BTreeSet<usize> = c.cuts.iter().copied().filter(|&x| x > 0 && x < off).collect();
            let inside = cuts.iter().any(|x| !bounds.contains(x));
            let share = c.mode == "streamed" && c.reqs.len() > 1 && bounds[..bounds.len() - 1].iter().any(|b| !cuts.contains(b));
            if share {
                rr.count("c01t.two_requests_share_segment", 1);
            }
            if c.reqs.iter().any(|r| r.path == "/panic" && r.method != "OPTIONS" && r.malformed.is_none()) {
                rr.count("c01t.panic_requests", 1);
            }
            let ok = check_client(&mut rr, "C01", None, &scn.cors, scn.sim.epoch_secs, cid, c, &expects[cid], &outs[cid], share);
            client_ok.push(ok);
            if (c.reqs.len() >= 2 || scn.clients.len() >= 2) && inside {
                nontrivial = true;
            }
            let statuses: Vec<u16> = outs[cid].log.as_ref().map(|l| parse_stream(&l.bytes, l.ended()).0.iter().map(|r| r.status).collect()).unwrap_or_default();
            shape.push_str(&format!("[{}:{}:{}:{:?}]", c.mode, cuts.len().min(9), c.ending, statuses));
        }
        if let Some(st) = hstate.lock().unwrap().clone() {
            let hl = st.log.lock().unwrap().clone();
            check_handler_log(&mut rr, "C01", &scn, &expects, &outs, &client_ok, &hl);
        }
        // signatures of the twin carry the runtime
        for v in rr.violations.iter_mut() {
            v.sig = format!("tokio:{}", v.sig);
        }
        if nontrivial {
            rr.shapes.push(fnv64(format!("tk|{}", shape).as_bytes()));
        }
        rr.trace_hash = fnv64(format!("{}|{}|{:?}", shape, vns, outs.iter().map(|o| o.log.as_ref().map(|l| l.reads.clone())).collect::<Vec<_>>()).as_bytes());
        rr.sample = Some(json!({"runtime": "tokio", "clients": scn.clients.iter().enumerate().map(|(cid, c)| json!({"mode": c.mode, "requests": c.reqs.len(), "statuses": outs[cid].log.as_ref().map(|l| parse_stream(&l.bytes, l.ended()).0.iter().map(|r| r.status).collect::<Vec<_>>())})).collect::<Vec<_>>()}));
        rr
    }
}

// ------------------------------------------------------------------ C02 on tokio

pub struct C02T;

/// AsyncRead that hands out the bytes according to a plan of read sizes, with `Pending`
/// + immediate wake between chunks (the async analogue of a short read).
struct PlanReader {
    data: Vec<u8>,
    pos: usize,
    sizes: Vec<usize>,
    idx: usize,
    rest: usize,
    pend_next: bool,
}

impl tokio::io::AsyncRead for PlanReader {
    fn poll_read(mut self: std::pin::Pin<&mut Self>, cx: &mut std::task::Context<'_>, buf: &mut tokio::io::ReadBuf<'_>) -> std::task::Poll<std::io::Result<()>> {
        if self.pend_next {
            self.pend_next = false;
            cx.waker().wake_by_ref();
            return std::task::Poll::Pending;
        }
        if self.pos >= self.data.len() {
            return std::task::Poll::Ready(Ok(()));
        }
        let allowed = if self.idx < self.sizes.len() { self.sizes[self.idx].max(1) } else { self.rest.max(1) };
        let n = allowed.min(buf.remaining()).min(self.data.len() - self.pos);
        let (a, b) = (self.pos, self.pos + n);
        buf.put_slice(&self.data[a..b]);
        self.pos += n;
        if self.idx < self.sizes.len() {
            if n >= self.sizes[self.idx] {
                self.idx += 1;
            } else {
                let i = self.idx;
                self.sizes[i] -= n;
            }
        }
        self.pend_next = true;
        std::task::Poll::Ready(Ok(()))
    }
}

#[derive(Serialize, Deserialize, Clone, Debug)]
struct M2 {
    method: String,
    path: String,
    query: String,
    version: String,
    headers: Vec<(String, String)>,
    #[serde(with = "bytes_as_string")]
    body: Vec<u8>,
    has_body: bool,
}

impl M2 {
    fn wire(&self) -> Vec<(String, String)> {
        let mut h = self.headers.clone();
        if self.has_body {
            h.push(("Content-Length".into(), self.body.len().to_string()));
        }
        h
    }
    fn render(&self) -> Vec<u8> {
        let target = if self.query.is_empty() { self.path.clone() } else { format!("{}?{}", self.path, self.query) };
        let mut b = format!("{} {} {}\r\n", self.method, target, self.version).into_bytes();
        for (k, v) in self.wire() {
            b.extend(format!("{}: {}\r\n", k, v).bytes());
        }
        b.extend(b"\r\n");
        if self.has_body {
            b.extend(&self.body);
        }
        b
    }
}

fn view(r: &Request, names: &[String]) -> String {
    format!("{}|{}|{}|{}|{:?}|{}|{:?}|{:?}", r.method, r.uri, r.query, r.version, names.iter().map(|n| r.headers.get_all(n.as_str()).iter().map(|s| s.to_string()).collect::<Vec<_>>()).collect::<Vec<_>>(), r.headers.len(), r.content, r.address)
}

impl Prop for C02T {
    fn id(&self) -> &'static str {
        "C02T"
    }
    fn level(&self) -> &'static str {
        "exploration"
    }
    fn runs(&self, tier: Tier) -> u64 {
        match tier {
            Tier::Quick => 2000,
            Tier::Thorough => 100_000,
        }
    }
    fn rule(&self) -> &'static str {
        "Tokio twin of C02: generated well-formed requests parsed by the async `Request::from_stream` over a scripted AsyncRead (whole, one byte per poll, every split point for messages <= 1 KiB, random chunkings, Pending between chunks), compared with the model and re-parsed after serialisation."
    }
    fn assumptions(&self) -> Vec<String> {
        vec!["header values without surrounding whitespace; one X-Forwarded-For field at most".into()]
    }
    fn real_vs_stub(&self) -> (Vec<&'static str>, Vec<&'static str>) {
        (vec!["async Request::from_stream / from_buffered, Headers, Address::from_headers, From<Request> for Vec<u8>"], vec!["byte source: scripted AsyncRead"])
    }
    fn generate(&self, seed: u64, idx: u64, _tier: Tier) -> Value {
        let mut rng = Rng::new(run_seed(seed, "C02T", idx));
        const NAMES: [&str; 10] = ["Host", "Accept", "X-Custom", "x-custom", "X-CUSTOM", "Via", "Cookie", "X-Forwarded-For", "Referer", "X-B"];
        let nh = [0usize, 2, 5, 12, 30][rng.usize_below(5)];
        let mut headers = Vec::new();
        let mut have_xff = false;
        for _ in 0..nh {
            let n = NAMES[rng.usize_below(NAMES.len())];
            if n == "X-Forwarded-For" {
                if have_xff {
                    continue;
                }
                have_xff = true;
                headers.push((n.to_string(), ["1.2.3.4", "1.2.3.4, 5.6.7.8", "::1,9.9.9.9"][rng.usize_below(3)].to_string()));
                continue;
            }
            if n == "Cookie" && headers.iter().any(|(k, _): &(String, String)| k == "Cookie") {
                continue;
            }
            let l = rng.range(1, 30) as usize;
            let v: String = (0..l).map(|_| if rng.chance(1, 10) { '\u{e9}' } else { (0x21 + rng.below(0x5e) as u8) as char }).collect();
            headers.push((n.to_string(), v.trim().to_string()));
        }
        let has_body = rng.chance(1, 2);
        let bl = [0usize, 3, 100, 8200, 20_000][rng.usize_below(5)];
        let m = M2 { method: ["GET", "POST", "PUT", "DELETE", "OPTIONS"][rng.usize_below(5)].into(), path: format!("/p{}", rng.below(100)), query: if rng.chance(1, 2) { "a=1&b=?".into() } else { String::new() }, version: if rng.chance(1, 4) { "HTTP/1.0".into() } else { "HTTP/1.1".into() }, headers, body: rng.bytes(if has_body { bl } else { 0 }), has_body };
        json!({"model": m, "plan_seed": rng.next_u64() >> 1, "sim": SimParams::basic(rng.next_u64() >> 1, "rr")})
    }
    fn execute(&self, scn: &Value) -> RunResult {
        let mut rr = RunResult::default();
        let m: M2 = match serde_json::from_value(scn["model"].clone()) {
            Ok(m) => m,
            Err(e) => {
                rr.harness_error = Some(format!("bad scenario: {}", e));
                return rr;
            }
        };
        install_hook();
        let mut rng = Rng::new(scn["plan_seed"].as_u64().unwrap_or(1));
        let bytes = m.render();
        let n = bytes.len();
        let peer: SocketAddr = "10.0.0.7:4444".parse().unwrap();
        let mut names: Vec<String> = Vec::new();
        for (k, _) in m.wire() {
            let l = k.to_ascii_lowercase();
            if !names.contains(&l) {
                names.push(l);
            }
        }
        let mut plans: Vec<(&str, Vec<usize>, usize)> = vec![("whole", vec![], usize::MAX), ("bytewise", vec![], 1)];
        if n <= 1024 {
            for k in 1..n {
                plans.push(("split", vec![k], usize::MAX));
            }
        } else {
            for _ in 0..30 {
                plans.push(("split", vec![1 + rng.usize_below(n - 1)], usize::MAX));
            }
        }
        for _ in 0..3 {
            let mut sizes = Vec::new();
            let mut left = n;
            while left > 0 {
                let k = 1 + rng.usize_below(left.min(700));
                sizes.push(k);
                left -= k;
            }
            plans.push(("chunks", sizes, usize::MAX));
        }
        let mut reference: Option<String> = None;
        let mut first: Option<Request> = None;
        for (pname, sizes, rest) in plans {
            rr.evals += 1;
            let data = bytes.clone();
            let r = std::panic::catch_unwind(std::panic::AssertUnwindSafe(|| {
                run_rt(1, 60, async move {
                    let mut rd = PlanReader { data, pos: 0, sizes, idx: 0, rest, pend_next: false };
                    Request::from_stream(&mut rd, peer).await
                })
            }));
            match r {
                Err(_) => {
                    rr.violate("C02/R1", format!("tokio:parser-panicked:{}", pname), show_bytes(&bytes[..n.min(200)]));
                    break;
                }
                Ok(None) => {
                    rr.violate("C02/R1", format!("tokio:parser-hung:{}", pname), show_bytes(&bytes[..n.min(200)]));
                    break;
                }
                Ok(Some(Err(e))) => {
                    rr.violate("C02/R1", format!("tokio:well-formed-request-rejected:{:?}:{}", e, pname), show_bytes(&bytes[..n.min(300)]));
                    break;
                }
                Ok(Some(Ok(req))) => {
                    let v = view(&req, &names);
                    // model comparison on the plain fields
                    let want_hdrs: Vec<Vec<String>> = names.iter().map(|nm| m.wire().iter().filter(|(k, _)| k.eq_ignore_ascii_case(nm)).map(|(_, v)| v.clone()).collect()).collect();
                    let got_hdrs: Vec<Vec<String>> = names.iter().map(|nm| req.headers.get_all(nm.as_str()).iter().map(|s| s.to_string()).collect()).collect();
                    if req.method.to_string() != m.method || req.uri != m.path || req.query != m.query || req.version != m.version || got_hdrs != want_hdrs || req.content != if m.has_body { Some(m.body.clone()) } else { None } {
                        rr.violate("C02/R1", format!("tokio:parsed-differs:{}", if pname == "whole" { "any-plan" } else { pname }), format!("plan {}: parsed request differs from the model; request {}", pname, show_bytes(&bytes[..n.min(300)])));
                        break;
                    }
                    match &reference {
                        None => reference = Some(v),
                        Some(r0) => {
                            if *r0 != v {
                                rr.violate("C02/R2", format!("tokio:result-depends-on-chunking:{}", pname), format!("plan {} gives a different request than the whole delivery", pname));
                                break;
                            }
                        }
                    }
                    if first.is_none() {
                        first = Some(req);
                    }
                    rr.shapes.push(fnv64(format!("{}:{}", hash_json(&scn["model"]), pname).as_bytes()));
                }
            }
        }
        if let (Some(req), true) = (first, rr.violations.is_empty()) {
            rr.evals += 1;
            let b2: Vec<u8> = req.clone().into();
            let r2 = run_rt(1, 60, async move {
                let mut rd = PlanReader { data: b2, pos: 0, sizes: vec![], idx: 0, rest: usize::MAX, pend_next: false };
                Request::from_stream(&mut rd, peer).await
            });
            match r2 {
                Some(Ok(r2)) => {
                    if view(&r2, &names) != view(&req, &names) {
                        rr.violate("C02/R3", "tokio:roundtrip-differs", "serialise + parse changes the request".to_string());
                    }
                }
                _ => rr.violate("C02/R3", "tokio:roundtrip-rejected", "the serialised request does not parse".to_string()),
            }
        }
        rr.sample = Some(json!({"runtime": "tokio", "request": show_bytes(&bytes[..n.min(200)]), "parses": rr.evals}));
        rr.trace_hash = fnv64(format!("{:?}{}", rr.violations, rr.evals).as_bytes());
        rr
    }
}

// ------------------------------------------------------------------ C20 on tokio

pub struct C20T;

#[derive(Serialize, Deserialize, Clone, Debug)]
struct Conn20 {
    at_ms: u64,
    /// "connected" | "idle-keepalive" | "half-request" | "handler-long" | "slow-reader" | "plain"
    state: String,
}

#[derive(Serialize, Deserialize, Clone, Debug)]
struct Scn20 {
    sim: SimParams,
    bind: String,
    signal_ms: u64,
    before_run: bool,
    conns: Vec<Conn20>,
}

impl Prop for C20T {
    fn id(&self) -> &'static str {
        "C20T"
    }
    fn level(&self) -> &'static str {
        "exploration"
    }
    fn runs(&self, tier: Tier) -> u64 {
        match tier {
            Tier::Quick => 8000,
            Tier::Thorough => 400_000,
        }
    }
    fn rule(&self) -> &'static str {
        "Tokio twin of C20: `App::run().await` with a CancellationToken, 0..12 connections scripted into states (connected, idle keep-alive, half-sent request, handler awaiting 2 virtual s, 150 KB response to a 512-byte-window reader, plain) at the virtual instant the token is cancelled (also before run is polled); oracle: run returns Ok within 1 virtual second, the address can be bound again, responses that started arrive completely, requests sent >= 100 ms before the cancel are answered (spawned connection tasks keep running)."
    }
    fn assumptions(&self) -> Vec<String> {
        vec!["connection tasks are detached (tokio::spawn) and keep running on the runtime after run returns; the harness keeps the runtime alive until the clients finish".into()]
    }
    fn expected_counters(&self) -> Vec<&'static str> {
        vec!["c20t.signal_with_open_connections", "c20t.signal_before_run", "c20t.rebinds"]
    }
    fn real_vs_stub(&self) -> (Vec<&'static str>, Vec<&'static str>) {
        (vec!["humphrey (tokio feature): App::run select loop, with_shutdown(CancellationToken), client_handler tasks"], vec!["tokio::net (humsim::tokio_net), paused clock, seeded runtime RNG"])
    }
    fn generate(&self, seed: u64, idx: u64, _tier: Tier) -> Value {
        let mut rng = Rng::new(run_seed(seed, "C20T", idx));
        let n = [0usize, 1, 2, 4, 8, 12][rng.usize_below(6)];
        let signal_ms = [0u64, 1, 20, 200, 1500][rng.usize_below(5)];
        let states = ["connected", "idle-keepalive", "half-request", "handler-long", "slow-reader", "plain"];
        let conns = (0..n).map(|_| Conn20 { at_ms: match rng.below(3) { 0 => 0, 1 => signal_ms, _ => rng.below(signal_ms + 30) }, state: states[rng.usize_below(states.len())].into() }).collect();
        let mut sim = SimParams::draw(&mut rng, true);
        sim.latency_max_ns = None;
        serde_json::to_value(Scn20 { sim, bind: ["127.0.0.1", "0.0.0.0", "[::]"][rng.usize_below(3)].into(), signal_ms, before_run: signal_ms == 0 && rng.chance(1, 2), conns }).unwrap()
    }
    fn execute(&self, scenario: &Value) -> RunResult {
        let mut rr = RunResult { evals: 1, ..Default::default() };
        let scn: Scn20 = match serde_json::from_value(scenario.clone()) {
            Ok(s) => s,
            Err(e) => {
                rr.harness_error = Some(format!("bad scenario: {}", e));
                return rr;
            }
        };
        install_hook();
        PANICS.lock().unwrap().clear();
        let bind = if ["127.0.0.1", "0.0.0.0", "[::]"].contains(&scn.bind.as_str()) { scn.bind.clone() } else { "127.0.0.1".into() };
        let bind_addr: SocketAddr = format!("{}:8099", bind).parse().unwrap();
        let connect_to: SocketAddr = if bind == "[::]" { "[::1]:8099".parse().unwrap() } else { "127.0.0.1:8099".parse().unwrap() };
        let scn2 = scn.clone();
        let big: Vec<u8> = (0..150_000u32).map(|i| b'A' + (i % 23) as u8).collect();
        let big2 = big.clone();
        // returns (t_signal, t_returned, run_ok, rebind, per-connection (bytes, eof, request_sent_ns))
        let result = run_rt(scn.sim.seed, 3600, async move {
            tokio_net::reset(net_cfg(&scn2.sim));
            let t0 = tokio::time::Instant::now();
            let big3 = big2.clone();
            let app: App<()> = App::new_with_config(())
                .with_route("/ok", |_r: Request, _s: Arc<()>| async move { Response::new(StatusCode::OK, "ok-body") })
                .with_route("/slow", |_r: Request, _s: Arc<()>| async move {
                    tokio::time::sleep(Duration::from_millis(2000)).await;
                    Response::new(StatusCode::OK, "slow-done")
                })
                .with_route("/big", move |_r: Request, _s: Arc<()>| {
                    let b = big3.clone();
                    async move { Response::new(StatusCode::OK, b) }
                });
            let token = CancellationToken::new();
            let app = app.with_shutdown(token.clone());
            if scn2.before_run {
                token.cancel();
            }
            let ret: Arc<Mutex<Option<(u64, bool)>>> = Arc::new(Mutex::new(None));
            let ret2 = ret.clone();
            let runner = tokio::spawn(async move {
                let ok = app.run(bind_addr).await.is_ok();
                *ret2.lock().unwrap() = Some((virt_ns(t0), ok));
            });
            let mut hs = Vec::new();
            for c in scn2.conns.iter().cloned() {
                let signal_at = scn2.signal_ms;
                hs.push(tokio::spawn(async move {
                    tokio::time::sleep(Duration::from_millis(c.at_ms)).await;
                    let mut s = None;
                    for _ in 0..20 {
                        match TcpStream::connect(connect_to).await {
                            Ok(x) => {
                                s = Some(x);
                                break;
                            }
                            Err(_) => tokio::time::sleep(Duration::from_millis(1)).await,
                        }
                    }
                    let s = match s {
                        Some(s) => s,
                        None => return (Vec::new(), false, None, false),
                    };
                    if c.state == "slow-reader" {
                        s.sim_set_window(512);
                    }
                    let (mut rd, mut wr) = tokio::io::split(s);
                    let mut log = RecvLog::new();
                    let req = |t: &str, conn: &str| ReqModel { method: "GET".into(), target: t.into(), version: "HTTP/1.1".into(), headers: vec![("Host".into(), "sim".into()), ("Connection".into(), conn.into())], body: None }.render();
                    let linger = Duration::from_millis(signal_at.saturating_sub(c.at_ms) + 1500);
                    let mut sent_ns = None;
                    match c.state.as_str() {
                        "connected" => tokio::time::sleep(linger).await,
                        "idle-keepalive" => {
                            let _ = wr.write_all(&req("/ok", "keep-alive")).await;
                            sent_ns = Some(virt_ns(t0));
                            read_n_responses(&mut rd, &mut log, 1, t0, Duration::from_secs(30)).await;
                            tokio::time::sleep(linger).await;
                        }
                        "half-request" => {
                            let r = req("/ok", "close");
                            let _ = wr.write_all(&r[..r.len() / 2]).await;
                            tokio::time::sleep(linger).await;
                            let _ = wr.write_all(&r[r.len() / 2..]).await;
                            read_n_responses(&mut rd, &mut log, 1, t0, Duration::from_secs(30)).await;
                        }
                        "handler-long" => {
                            let _ = wr.write_all(&req("/slow", "close")).await;
                            sent_ns = Some(virt_ns(t0));
                            while read_more(&mut rd, &mut log, t0, Duration::from_secs(60)).await {}
                        }
                        "slow-reader" => {
                            let _ = wr.write_all(&req("/big", "close")).await;
                            sent_ns = Some(virt_ns(t0));
                            while read_more(&mut rd, &mut log, t0, Duration::from_secs(60)).await {
                                tokio::time::sleep(Duration::from_millis(2)).await;
                            }
                        }
                        _ => {
                            let _ = wr.write_all(&req("/ok", "close")).await;
                            sent_ns = Some(virt_ns(t0));
                            while read_more(&mut rd, &mut log, t0, Duration::from_secs(30)).await {}
                        }
                    }
                    (log.bytes.clone(), log.eof || log.reset, sent_ns, true)
                }));
            }
            tokio::time::sleep(Duration::from_millis(scn2.signal_ms)).await;
            let t_sig = virt_ns(t0);
            token.cancel();
            // bounded wait for run to return
            let mut waited = 0;
            while !runner.is_finished() && waited < 10_000 {
                tokio::time::sleep(Duration::from_millis(1)).await;
                waited += 1;
            }
            let mut rebind = None;
            if runner.is_finished() {
                rebind = Some(match TcpListener::bind(bind_addr).await {
                    Ok(l) => {
                        drop(l);
                        "ok".to_string()
                    }
                    Err(e) => e.to_string(),
                });
            }
            let mut outs = Vec::new();
            for h in hs {
                outs.push(h.await.unwrap_or((Vec::new(), false, None, false)));
            }
            let r = *ret.lock().unwrap();
            (t_sig, r, rebind, outs, virt_ns(t0))
        });
        for (k, v) in tokio_net::finish() {
            rr.count(&k, v);
        }
        let (t_sig, ret, rebind, outs, vns) = match result {
            Some(x) => x,
            None => {
                rr.violate("C20/R1", "tokio:no-progress", "the scenario did not finish within 3600 virtual seconds".to_string());
                return rr;
            }
        };
        rr.virtual_ns = vns;
        if scn.before_run {
            rr.count("c20t.signal_before_run", 1);
        }
        let open_at_signal = scn.conns.iter().filter(|c| c.at_ms < scn.signal_ms).count();
        if open_at_signal > 0 {
            rr.count("c20t.signal_with_open_connections", 1);
        }
        let cfg = format!("tokio:{}:{}", bind, if scn.before_run { "before-run" } else if open_at_signal == 0 { "before-first-connection" } else { "with-traffic" });
        if let Some(p) = PANICS.lock().unwrap().iter().find(|p| p.contains("/repo/")) {
            rr.violate("C20/R1", "tokio:server-panicked", p.clone());
        }
        match ret {
            None => rr.violate("C20/R1", format!("run-did-not-return:{}", cfg), "run had not returned 10 virtual s after the token was cancelled".to_string()),
            Some((t, ok)) => {
                if !ok {
                    rr.violate("C20/R1", format!("run-returned-error:{}", cfg), "run returned Err".to_string());
                }
                if t > t_sig + 1_000_000_000 {
                    rr.violate("C20/R1", format!("run-returned-late:{}", cfg), format!("{} ms after the cancel", (t - t_sig) / 1_000_000));
                }
                match rebind.as_deref() {
                    Some("ok") => rr.count("c20t.rebinds", 1),
                    other => rr.violate("C20/R2", format!("port-not-free:{}", cfg), format!("{:?}", other)),
                }
            }
        }
        let mut shape = String::new();
        for (i, c) in scn.conns.iter().enumerate() {
            let (bytes, eof, sent, connected) = &outs[i];
            let (rs, end) = parse_stream(bytes, true);
            shape.push_str(&format!("[{}:{}:{:?}]", c.state, (c.at_ms < scn.signal_ms) as u8, rs.first().map(|r| r.status)));
            if !connected {
                continue;
            }
            match &end {
                StreamEnd::Garbage { at, why } => rr.violate("C20/R4", "tokio:response-not-http", format!("connection {} ({}): byte {}: {}", i, c.state, at, why)),
                StreamEnd::Incomplete { at, why } => rr.violate("C20/R4", format!("tokio:response-truncated:{}", c.state), format!("connection {} ({}): response stops at byte {} ({}), {} bytes received, eof {}", i, c.state, at, why, bytes.len(), eof)),
                StreamEnd::Clean => {}
            }
            let want: Option<&[u8]> = match c.state.as_str() {
                "idle-keepalive" | "half-request" | "plain" => Some(b"ok-body"),
                "handler-long" => Some(b"slow-done"),
                "slow-reader" => Some(&big),
                _ => None,
            };
            if let (Some(r), Some(w)) = (rs.first(), want) {
                if r.status != 200 || body_without_tolerated_crlf(r) != w {
                    rr.violate("C20/R3", format!("tokio:wrong-response:{}", c.state), format!("status {} body {} bytes", r.status, r.body.len()));
                }
            }
            if let (Some(s), Some(_)) = (sent, want) {
                if *s + 100_000_000 <= t_sig && !scn.before_run && rs.is_empty() {
                    rr.violate("C20/R4", format!("tokio:request-before-signal-unanswered:{}", c.state), format!("connection {}: request sent {} ms before the cancel got no response", i, (t_sig - s) / 1_000_000));
                }
            }
        }
        if open_at_signal > 0 {
            rr.shapes.push(fnv64(format!("tk20|{}|{}", shape, cfg).as_bytes()));
        }
        rr.trace_hash = fnv64(format!("{}|{}|{:?}", shape, vns, ret).as_bytes());
        rr.sample = Some(json!({"runtime": "tokio", "config": cfg, "signal_ms": scn.signal_ms, "returned_after_ms": ret.map(|r| r.0.saturating_sub(t_sig) / 1_000_000), "rebind": rebind, "connections": scn.conns.iter().enumerate().map(|(i, c)| format!("at {} ms {} -> {} bytes", c.at_ms, c.state, outs[i].0.len())).collect::<Vec<_>>()}));
        rr
    }
}

// ------------------------------------------------------------------ C04 on tokio

pub struct C04T;

use crate::props::c04;

fn sub_app_tk(tag: String, h: &c04::HostCfg) -> SubApp<()> {
    let mut s: SubApp<()> = SubApp::new();
    for (ri, p) in h.routes.iter().enumerate() {
        let id = format!("{}r{}", tag, ri);
        s = s.with_route(p, move |_r: Request, _s: Arc<()>| {
            let id = id.clone();
            async move { Response::new(StatusCode::OK, id) }
        });
    }
    for (ri, p) in h.ws_routes.iter().enumerate() {
        let id = format!("{}w{}", tag, ri);
        s = s.with_websocket_route(p, move |_r: Request, mut stream: humphrey::stream::Stream, _s: Arc<()>| {
            let id = id.clone();
            async move {
                let _ = stream.write_all(format!("WS-HANDLER {}", id).as_bytes()).await;
            }
        });
    }
    s
}

async fn run_client_c04(reqs: Vec<c04::Rq>, addr: SocketAddr, t0: tokio::time::Instant) -> Vec<Option<String>> {
    let mut out = Vec::new();
    let mut s = None;
    for _ in 0..200 {
        match TcpStream::connect(addr).await {
            Ok(x) => {
                s = Some(x);
                break;
            }
            Err(_) => tokio::time::sleep(Duration::from_millis(1)).await,
        }
    }
    let s = match s {
        Some(s) => s,
        None => return out,
    };
    let (mut rd, mut wr) = tokio::io::split(s);
    let mut log = RecvLog::new();
    for (i, r) in reqs.iter().enumerate() {
        let target = if r.query.is_empty() { r.path.clone() } else { format!("{}?{}", r.path, r.query) };
        let mut headers = Vec::new();
        if let Some(h) = &r.host {
            headers.push(("Host".to_string(), h.clone()));
        }
        headers.push(("Connection".into(), "keep-alive".into()));
        if r.ws {
            headers.push(("Upgrade".into(), "websocket".into()));
        }
        let bytes = ReqModel { method: "GET".into(), target, version: "HTTP/1.1".into(), headers, body: None }.render();
        if wr.write_all(&bytes).await.is_err() {
            break;
        }
        if r.ws {
            let before = log.bytes.len();
            while read_more(&mut rd, &mut log, t0, Duration::from_secs(10)).await {}
            let mut raw = &log.bytes[before..];
            if i > 0 && raw.starts_with(b"\r\n") {
                raw = &raw[2..];
            } else if i > 0 && raw.starts_with(b"\n") && log.bytes[..before].ends_with(b"\r") {
                raw = &raw[1..];
            }
            out.push(Some(String::from_utf8_lossy(raw).to_string()));
            break;
        }
        let n = read_n_responses(&mut rd, &mut log, i + 1, t0, Duration::from_secs(20)).await;
        let (rs, _) = parse_stream(&log.bytes, log.ended());
        match rs.get(i) {
            Some(resp) if n > i => out.push(Some(format!("{} {}", resp.status, String::from_utf8_lossy(body_without_tolerated_crlf(resp))))),
            _ => {
                out.push(None);
                break;
            }
        }
    }
    out
}

impl Prop for C04T {
    fn id(&self) -> &'static str {
        "C04T"
    }
    fn level(&self) -> &'static str {
        "exploration"
    }
    fn runs(&self, tier: Tier) -> u64 {
        match tier {
            Tier::Quick => 20_000,
            Tier::Thorough => 1_000_000,
        }
    }
    fn rule(&self) -> &'static str {
        "Tokio twin of C04: the same generated applications (the default application's routes are registered on the App itself, as this runtime has no default sub-app setter), request sequences and reference router, against `App::run().await` on a paused-clock current_thread runtime over humsim::tokio_net."
    }
    fn assumptions(&self) -> Vec<String> {
        vec!["same as C04; the WebSocket handlers write their identity on the async Stream and return".into()]
    }
    fn expected_counters(&self) -> Vec<&'static str> {
        vec!["c04.requests", "c04.ws_requests", "c04.answered_by_host_app", "c04.fell_through_to_default", "c04.no_route_404", "c04.shadowed_route_requests", "c04.second_or_later_request_on_connection"]
    }
    fn real_vs_stub(&self) -> (Vec<&'static str>, Vec<&'static str>) {
        (vec!["humphrey (tokio feature): App::run, client_handler, get_handler, call_websocket_handler, SubApp, krauss::wildcard_match"], vec!["tokio::net (humsim::tokio_net), tokio clock (paused)", "clients are harness reference implementations"])
    }
    fn generate(&self, seed: u64, idx: u64, tier: Tier) -> Value {
        serde_json::to_value(c04::gen_scn(run_seed(seed, "C04T", idx), tier)).unwrap()
    }
    fn execute(&self, scenario: &Value) -> RunResult {
        let mut rr = RunResult { evals: 1, ..Default::default() };
        let mut scn: c04::Scn = match serde_json::from_value(scenario.clone()) {
            Ok(s) => s,
            Err(e) => {
                rr.harness_error = Some(format!("bad scenario: {}", e));
                return rr;
            }
        };
        c04::normalise(&mut scn);
        install_hook();
        PANICS.lock().unwrap().clear();
        let addr: SocketAddr = "127.0.0.1:8084".parse().unwrap();
        let scn2 = scn.clone();
        let result = run_rt(scn.sim.seed, 7200, async move {
            tokio_net::reset(net_cfg(&scn2.sim));
            let t0 = tokio::time::Instant::now();
            let mut app: App<()> = App::new_with_config(());
            // the default application: routes registered on the App itself
            for (ri, p) in scn2.default.routes.iter().enumerate() {
                let id = format!("dr{}", ri);
                app = app.with_route(p, move |_r: Request, _s: Arc<()>| {
                    let id = id.clone();
                    async move { Response::new(StatusCode::OK, id) }
                });
            }
            for (ri, p) in scn2.default.ws_routes.iter().enumerate() {
                let id = format!("dw{}", ri);
                app = app.with_websocket_route(p, move |_r: Request, mut stream: humphrey::stream::Stream, _s: Arc<()>| {
                    let id = id.clone();
                    async move {
                        let _ = stream.write_all(format!("WS-HANDLER {}", id).as_bytes()).await;
                    }
                });
            }
            for (hi, h) in scn2.hosts.iter().enumerate() {
                app = app.with_host(&h.pattern, sub_app_tk(format!("h{}", hi), h));
            }
            tokio::spawn(async move {
                let _ = app.run(addr).await;
            });
            let mut hs = Vec::new();
            for reqs in scn2.clients.iter() {
                hs.push(tokio::spawn(run_client_c04(reqs.clone(), addr, t0)));
            }
            let mut outs = Vec::new();
            for h in hs {
                outs.push(h.await.unwrap_or_default());
            }
            (outs, virt_ns(t0))
        });
        for (k, v) in tokio_net::finish() {
            rr.count(&k, v);
        }
        let (outs, vns) = match result {
            Some(x) => x,
            None => {
                rr.violate("C04/R0", "tokio:run-did-not-complete", "nothing was runnable and no timer was pending for 7200 virtual seconds: clients could not finish".to_string());
                return rr;
            }
        };
        rr.virtual_ns = vns;
        if let Some(p) = PANICS.lock().unwrap().first() {
            rr.violate("C04/R0", "tokio:server-panicked", p.clone());
        }
        c04::judge(&mut rr, &scn, &outs, true);
        for v in rr.violations.iter_mut() {
            if !v.sig.starts_with("tokio:") {
                v.sig = format!("tokio:{}", v.sig);
            }
        }
        rr.trace_hash = fnv64(format!("{}|{:?}", vns, outs).as_bytes());
        rr
    }
}
