//! C02 — request parsing is faithful, segmentation-independent and round-trips.
//!
//! Seam: `Request::from_stream<T: Read>` driven by a scripted reader; the "schedule" is
//! the read-size plan (every split point for messages <= 2 KiB, one byte per read,
//! random chunkings, short reads, EINTR).

use crate::common::*;
use crate::scripted::{Plan, ScriptedReader};
use humphrey::http::Request;
use humsim::rng::Rng;
use serde::{Deserialize, Serialize};
use serde_json::{json, Value};
use std::net::{IpAddr, SocketAddr};

pub struct C02;

#[derive(Serialize, Deserialize, Clone, Debug, PartialEq)]
pub struct Model {
    pub method: String,
    pub path: String,
    pub query: String,
    pub version: String,
    /// headers other than Content-Length, in wire order
    pub headers: Vec<(String, String)>,
    pub cookies: Vec<(String, String)>,
    /// X-Forwarded-For entries and the separator used ("," or ", ")
    pub xff: Vec<String>,
    pub xff_sep: String,
    #[serde(with = "bytes_as_string")]
    pub body: Vec<u8>,
    pub has_body: bool,
    pub peer: String,
    /// what follows the colon of the header lines: 0 one space everywhere, 1 nothing, 2 a tab,
    /// 3 two spaces, 4 a different one of these per line (optional whitespace, RFC 7230 3.2)
    #[serde(default)]
    pub sep_style: u8,
}

impl Model {
    pub fn wire_headers(&self) -> Vec<(String, String)> {
        let mut h = self.headers.clone();
        if !self.cookies.is_empty() {
            let v = self.cookies.iter().map(|(k, v)| format!("{}={}", k, v)).collect::<Vec<_>>().join("; ");
            let at = h.len() / 2;
            h.insert(at, ("Cookie".into(), v));
        }
        if !self.xff.is_empty() {
            let at = h.len() / 3;
            h.insert(at, ("X-Forwarded-For".into(), self.xff.join(&self.xff_sep)));
        }
        if self.has_body {
            let at = h.len().saturating_sub(1);
            h.insert(at, ("Content-Length".into(), format!("{}", self.body.len())));
        }
        h
    }
    pub fn render(&self) -> Vec<u8> {
        let target = if self.query.is_empty() { self.path.clone() } else { format!("{}?{}", self.path, self.query) };
        let mut b = format!("{} {} {}\r\n", self.method, target, self.version).into_bytes();
        for (i, (k, v)) in self.wire_headers().into_iter().enumerate() {
            let sep = [": ", ":", ":\t", ":  "][match self.sep_style % 5 {
                4 => (i * 7 + k.len()) % 4,
                x => x as usize,
            }];
            b.extend(format!("{}{}{}\r\n", k, sep, v).bytes());
        }
        b.extend(b"\r\n");
        if self.has_body {
            b.extend(&self.body);
        }
        b
    }
}

/// Canonical view of a parsed request (what the property says must be preserved).
#[derive(Clone, Debug, PartialEq)]
pub struct View {
    pub method: String,
    pub uri: String,
    pub query: String,
    pub version: String,
    /// (lowercase name, values in order), names in first-appearance order of `names`
    pub headers: Vec<(String, Vec<String>)>,
    pub header_count: usize,
    pub cookies: Vec<(String, String)>,
    /// `get_cookie(name)` for every name of `cookie_probe_names`
    pub cookie_lookups: Vec<(String, Option<String>)>,
    pub origin: IpAddr,
    pub proxies: Vec<IpAddr>,
    pub port: u16,
    pub body: Option<Vec<u8>>,
}

/// Names to look up with `get_cookie`: every cookie name sent, a proper suffix of each (present as
/// a cookie or not), every `k` of a `k=` occurring inside a value, and a name that is absent.
pub fn cookie_probe_names(cookies: &[(String, String)]) -> Vec<String> {
    let mut v: Vec<String> = Vec::new();
    let mut add = |s: String| {
        if !s.is_empty() && !v.contains(&s) {
            v.push(s);
        }
    };
    for (k, val) in cookies {
        add(k.clone());
        if k.chars().count() > 2 {
            add(k.chars().skip(k.chars().count() - 2).collect());
        }
        if let Some((_, tail)) = k.rsplit_once('_') {
            add(tail.to_string());
        }
        for part in val.split(['?', '&']) {
            if let Some((kk, _)) = part.split_once('=') {
                add(kk.to_string());
            }
        }
    }
    add("zz-absent".to_string());
    v
}

pub fn view_of_with_cookies(r: &Request, names: &[String], probe: &[String]) -> View {
    let mut v = view_of(r, names);
    v.cookie_lookups = probe.iter().map(|n| (n.clone(), r.get_cookie(n).map(|c| c.value))).collect();
    v
}

pub fn view_of(r: &Request, names: &[String]) -> View {
    View {
        method: r.method.to_string(),
        uri: r.uri.clone(),
        query: r.query.clone(),
        version: r.version.clone(),
        headers: names.iter().map(|n| (n.clone(), r.headers.get_all(n.as_str()).iter().map(|s| s.to_string()).collect())).collect(),
        header_count: r.headers.len(),
        cookies: r.get_cookies().into_iter().map(|c| (c.name, c.value)).collect(),
        cookie_lookups: vec![],
        origin: r.address.origin_addr,
        proxies: r.address.proxies.clone(),
        port: r.address.port,
        body: r.content.clone(),
    }
}

pub fn expected_view(m: &Model) -> (View, Vec<String>) {
    let wh = m.wire_headers();
    let mut names: Vec<String> = Vec::new();
    for (k, _) in &wh {
        let l = k.to_ascii_lowercase();
        if !names.contains(&l) {
            names.push(l);
        }
    }
    let headers = names.iter().map(|n| (n.clone(), wh.iter().filter(|(k, _)| k.eq_ignore_ascii_case(n)).map(|(_, v)| v.clone()).collect())).collect();
    let peer: SocketAddr = m.peer.parse().unwrap_or_else(|_| "127.0.0.1:9".parse().unwrap());
    let ips: Vec<IpAddr> = m.xff.iter().filter_map(|s| s.trim().parse().ok()).collect();
    let (origin, proxies) = if ips.is_empty() {
        (peer.ip(), vec![])
    } else {
        let mut p = ips[..ips.len() - 1].to_vec();
        p.push(peer.ip());
        (*ips.last().unwrap(), p)
    };
    (
        View {
            method: m.method.clone(),
            uri: m.path.clone(),
            query: m.query.clone(),
            version: m.version.clone(),
            headers,
            header_count: wh.len(),
            cookies: m.cookies.clone(),
            cookie_lookups: cookie_probe_names(&m.cookies).into_iter().map(|n| { let v = m.cookies.iter().find(|(k, _)| *k == n).map(|(_, v)| v.clone()); (n, v) }).collect(),
            origin,
            proxies,
            port: peer.port(),
            body: if m.has_body { Some(m.body.clone()) } else { None },
        },
        names,
    )
}

fn diff(a: &View, b: &View) -> String {
    if a.method != b.method {
        return "method".into();
    }
    if a.uri != b.uri {
        return "path".into();
    }
    if a.query != b.query {
        return "query".into();
    }
    if a.version != b.version {
        return "version".into();
    }
    if a.header_count != b.header_count {
        return "header-count".into();
    }
    for (x, y) in a.headers.iter().zip(b.headers.iter()) {
        if x != y {
            let mut xs = x.1.clone();
            let mut ys = y.1.clone();
            xs.sort();
            ys.sort();
            return if xs == ys { "same-name-header-order".into() } else { format!("header-value:{}", if ["cookie", "x-forwarded-for", "content-length", "host"].contains(&x.0.as_str()) { x.0.as_str() } else { "other" }) };
        }
    }
    if a.cookies != b.cookies {
        return "cookies".into();
    }
    if !a.cookie_lookups.is_empty() && !b.cookie_lookups.is_empty() && a.cookie_lookups != b.cookie_lookups {
        return "cookie-lookup".into();
    }
    if a.origin != b.origin {
        return "origin-address".into();
    }
    if a.proxies != b.proxies {
        return "proxy-addresses".into();
    }
    if a.port != b.port {
        return "port".into();
    }
    if a.body != b.body {
        return "body".into();
    }
    String::new()
}

fn token(rng: &mut Rng, n: usize) -> String {
    const A: &[u8] = b"abcdefghijklmnopqrstuvwxyzABCDEFGHIJKLMNOPQRSTUVWXYZ0123456789-_";
    (0..n.max(1)).map(|_| A[rng.usize_below(A.len())] as char).collect()
}

fn value(rng: &mut Rng, n: usize) -> String {
    const EXTRA: [&str; 10] = ["\u{e9}", "\u{4e2d}", "\u{1F600}", ":", " ", "=", ";", ",", "\t", "\""];
    let mut s = String::new();
    for _ in 0..n {
        if rng.chance(1, 8) {
            s.push_str(EXTRA[rng.usize_below(EXTRA.len())]);
        } else {
            s.push((0x21 + rng.below(0x5e) as u8) as char);
        }
    }
    s.trim().to_string()
}

pub fn random_ip(rng: &mut Rng) -> String {
    if rng.chance(1, 3) {
        format!("{:x}:{:x}::{:x}", rng.below(0xffff), rng.below(0xffff), rng.below(0xffff))
    } else {
        format!("{}.{}.{}.{}", rng.below(256), rng.below(256), rng.below(256), rng.below(256))
    }
}

pub fn gen_model(rng: &mut Rng, tier: Tier) -> Model {
    const NAMES: [&str; 16] = ["Host", "Accept", "User-Agent", "Accept-Language", "Referer", "X-Custom", "x-custom", "X-CUSTOM", "Authorization", "Cache-Control", "Via", "X-Trace-Id", "Origin", "Pragma", "Accept-Encoding", "X-B"];
    let nh = match rng.below(8) {
        0 => 0,
        1..=4 => rng.range(1, 8),
        5..=6 => rng.range(9, 25),
        _ => rng.range(21, 60),
    } as usize;
    let mut headers = Vec::new();
    for _ in 0..nh {
        let name = if rng.chance(1, 6) { format!("X-{}", token(rng, 6)) } else { NAMES[rng.usize_below(NAMES.len())].to_string() };
        // randomise the case of the name
        let name: String = name.chars().map(|c| if rng.chance(1, 3) { c.to_ascii_uppercase() } else if rng.chance(1, 3) { c.to_ascii_lowercase() } else { c }).collect();
        let vlen = if rng.chance(1, 60) { 9000 } else { rng.range(0, 40) as usize };
        headers.push((name, value(rng, vlen)));
    }
    let ncook = if rng.chance(1, 3) { rng.range(1, 5) as usize } else { 0 };
    let mut cookies: Vec<(String, String)> = (0..ncook).map(|_| (token(rng, 5), token(rng, 8))).collect();
    // names that end in another cookie's name, and values that contain another cookie's `name=`
    if ncook > 0 {
        let mut r2 = Rng::new(humsim::rng::mix(&[rng.next_u64(), 0xC02_0002]));
        match r2.below(4) {
            0 => {
                let base = token(&mut r2, 2);
                cookies.insert(0, (format!("{}_{}", token(&mut r2, 4), base), token(&mut r2, 6)));
                if r2.chance(1, 2) {
                    cookies.push((base, token(&mut r2, 4)));
                }
            }
            1 => {
                let k = token(&mut r2, 1);
                cookies.insert(0, ("next".to_string(), format!("/login?{}=guest&r=1", k)));
                if r2.chance(2, 3) {
                    cookies.push((k, "admin".to_string()));
                }
            }
            _ => {}
        }
    }
    let nx = if rng.chance(1, 3) { rng.range(1, 4) as usize } else { 0 };
    let mut xff: Vec<String> = (0..nx).map(|_| random_ip(rng)).collect();
    // sometimes an entry that is not an address sits among the valid ones (it is skipped)
    {
        let mut r4 = Rng::new(humsim::rng::mix(&[rng.next_u64(), 0xC02_0004]));
        if !xff.is_empty() && r4.chance(1, 6) {
            let at = r4.usize_below(xff.len() + 1);
            xff.insert(at, ["unknown", "10.0.0.1:4711", "[2001:db8::1]", "_hidden"][r4.usize_below(4)].to_string());
        }
        // one list in five repeats an address: the origin (the last entry) also appears earlier, or
        // two neighbouring hops are equal; positions matter, values may repeat
        if xff.len() >= 1 && r4.chance(1, 5) {
            match r4.below(3) {
                0 => {
                    let last = xff[xff.len() - 1].clone();
                    xff.insert(0, last);
                }
                1 => {
                    let last = xff[xff.len() - 1].clone();
                    xff.push(last);
                }
                _ => {
                    let k = r4.usize_below(xff.len());
                    let d = xff[k].clone();
                    xff.insert(k, d);
                }
            }
        }
        // one model in forty has a long forwarding chain (around and far above 32 entries)
        if r4.chance(1, 40) {
            let n = [31usize, 32, 33, 34, 64, 200][r4.usize_below(6)];
            xff = (0..n).map(|_| random_ip(&mut r4)).collect();
        }
    }
    let has_body = rng.chance(1, 2);
    let blen = if !has_body {
        0
    } else {
        match rng.below(10) {
            0 => 0,
            1..=6 => rng.range(1, 200),
            7..=8 => rng.range(8000, 9000),
            _ => rng.range(1, if tier == Tier::Quick { 20_000 } else { 65_536 }),
        }
    } as usize;
    let nseg = rng.range(0, 4);
    let mut path = String::from("/");
    for i in 0..nseg {
        if i > 0 {
            path.push('/');
        }
        let tl = rng.range(1, 8) as usize;
        path.push_str(&token(rng, tl));
        if rng.chance(1, 6) {
            path.push_str(["%20", "%C3%A9", "\u{e9}", ".", "*", "+"][rng.usize_below(6)]);
        }
    }
    let query = if rng.chance(1, 2) { format!("{}={}&{}", token(rng, 3), token(rng, 5), ["x=1", "y=?", "z==", "q=%26", "k=\u{e9}"][rng.usize_below(5)]) } else { String::new() };
    Model {
        method: ["GET", "POST", "PUT", "DELETE", "OPTIONS"][rng.usize_below(5)].into(),
        path,
        query,
        version: if rng.chance(1, 4) { "HTTP/1.0".into() } else { "HTTP/1.1".into() },
        headers,
        cookies,
        xff,
        xff_sep: if rng.chance(1, 2) { ",".into() } else { ", ".into() },
        body: rng.bytes(blen),
        has_body,
        peer: format!("{}:{}", if rng.chance(1, 4) { "[::1]".to_string() } else { format!("10.0.{}.{}", rng.below(256), rng.below(256)) }, rng.range(1024, 65535)),
        sep_style: if rng.chance(1, 3) { 1 + rng.below(4) as u8 } else { 0 },
    }
}

pub fn parse_with(bytes: &[u8], plan: Plan, peer: SocketAddr) -> Result<Result<Request, String>, String> {
    let mut rd = ScriptedReader::new(bytes, plan);
    let r = std::panic::catch_unwind(std::panic::AssertUnwindSafe(|| Request::from_stream(&mut rd, peer)));
    match r {
        Ok(x) => {
            if rd.exhausted {
                return Err("parser exceeded the read-call budget".into());
            }
            Ok(x.map_err(|e| format!("{:?}", e)))
        }
        Err(_) => Err("parser panicked".into()),
    }
}

impl Prop for C02 {
    fn id(&self) -> &'static str {
        "C02"
    }
    fn level(&self) -> &'static str {
        "exploration"
    }
    fn runs(&self, tier: Tier) -> u64 {
        match tier {
            Tier::Quick => 6000,
            Tier::Thorough => 400_000,
        }
    }
    fn rule(&self) -> &'static str {
        "One run = one generated well-formed request model (5 methods, origin-form path incl. percent-escapes and UTF-8, optional query, 0..60 headers with repeated names in random case and > 20 headers, values with UTF-8 / colons / inner spaces (so also colon-space inside a value), the colon of a header line followed by one space, none, a tab or two spaces, lines > 8 KiB, a Cookie list (also names ending in another cookie's name and values containing another cookie's `name=`; every name, suffix and an absent name is looked up with get_cookie), an X-Forwarded-For list with ',' or ', ' separators over IPv4/IPv6, Content-Length body 0..64 KiB of arbitrary bytes) parsed under read plans: whole, one byte per read, EVERY two-chunk split point (messages <= 2 KiB; 40 random split points above), 3 random chunkings, EINTR before reads; then serialised and parsed again. Distinct non-trivial case = distinct (model, plan kind) with at least one header or a body; evaluations = parser calls."
    }
    fn assumptions(&self) -> Vec<String> {
        vec![
            "this phase is the sync parser (Request::from_stream<T: Read>); the async parser is exercised by the twin phase C02T of the same check".into(),
            "at most one Cookie and one X-Forwarded-For field per request (the accessors read the first)".into(),
            "header values are generated without leading/trailing whitespace, names without whitespace".into(),
        ]
    }
    fn expected_counters(&self) -> Vec<&'static str> {
        vec!["c02.models", "c02.every_split_point", "c02.more_than_20_headers", "c02.repeated_names", "c02.xff_with_spaces", "c02.xff_without_spaces", "c02.body_over_8k", "c02.line_over_8k", "c02.eintr_plans", "c02.roundtrips"]
    }
    fn real_vs_stub(&self) -> (Vec<&'static str>, Vec<&'static str>) {
        (vec!["Request::from_stream / from_buffered, Headers, HeaderType, Address::from_headers, get_cookies, From<Request> for Vec<u8>"], vec!["the byte source is a scripted reader (read sizes, EINTR)"])
    }

    fn generate(&self, seed: u64, idx: u64, tier: Tier) -> Value {
        let mut rng = Rng::new(run_seed(seed, "C02", idx));
        let m = gen_model(&mut rng, tier);
        json!({"model": m, "plan_seed": rng.next_u64() >> 1})
    }

    fn execute(&self, scn: &Value) -> RunResult {
        let mut rr = RunResult::default();
        let m: Model = match serde_json::from_value(scn["model"].clone()) {
            Ok(m) => m,
            Err(e) => {
                rr.harness_error = Some(format!("bad scenario: {}", e));
                return rr;
            }
        };
        let mut rng = Rng::new(scn["plan_seed"].as_u64().unwrap_or(1));
        let bytes = m.render();
        let peer: SocketAddr = m.peer.parse().unwrap_or_else(|_| "127.0.0.1:9".parse().unwrap());
        let (want, names) = expected_view(&m);
        rr.count("c02.models", 1);
        let wh = m.wire_headers();
        if wh.len() > 20 {
            rr.count("c02.more_than_20_headers", 1);
        }
        if names.len() < wh.len() {
            rr.count("c02.repeated_names", 1);
        }
        if !m.xff.is_empty() {
            rr.count(if m.xff_sep == ", " { "c02.xff_with_spaces" } else { "c02.xff_without_spaces" }, 1);
        }
        if m.body.len() > 8192 {
            rr.count("c02.body_over_8k", 1);
        }
        if wh.iter().any(|(_, v)| v.len() > 8192) {
            rr.count("c02.line_over_8k", 1);
        }
        let n = bytes.len();
        let mut plans: Vec<(&str, Plan)> = vec![("whole", Plan::whole()), ("bytewise", Plan::bytewise())];
        if n <= 2048 {
            rr.count("c02.every_split_point", 1);
            for k in 1..n {
                plans.push(("split", Plan::split_at(k)));
            }
        } else {
            for _ in 0..40 {
                plans.push(("split", Plan::split_at(1 + rng.usize_below(n - 1))));
            }
        }
        for _ in 0..3 {
            let mut sizes = Vec::new();
            let mut left = n;
            let maxc = [3usize, 17, 700, 9000][rng.usize_below(4)];
            while left > 0 {
                let k = 1 + rng.usize_below(left.min(maxc));
                sizes.push(k);
                left -= k;
            }
            plans.push(("chunks", Plan::chunks(sizes)));
        }
        let mut p = Plan::chunks(vec![1, 1, 5]);
        p.eintr_before = vec![0, 1, 3, 4, 9];
        plans.push(("eintr", p));
        rr.count("c02.eintr_plans", 1);
        let nontrivial = !wh.is_empty() || m.has_body;
        let mut first_parsed: Option<Request> = None;
        for (pname, plan) in plans {
            rr.evals += 1;
            match parse_with(&bytes, plan, peer) {
                Err(e) => {
                    rr.violate("C02/R1", format!("parser-crashed:{}", pname), format!("{} under plan {} on {}", e, pname, show_bytes(&bytes)));
                    break;
                }
                Ok(Err(e)) => {
                    rr.violate("C02/R1", format!("well-formed-request-rejected:{}:{}", e, pname), format!("a well-formed request was rejected with {} under plan {}: {}", e, pname, show_bytes(&bytes)));
                    break;
                }
                Ok(Ok(req)) => {
                    let got = view_of_with_cookies(&req, &names, &cookie_probe_names(&m.cookies));
                    let d = diff(&got, &want);
                    if !d.is_empty() {
                        let rule = if pname == "whole" { "C02/R1" } else { "C02/R2" };
                        rr.violate(rule, format!("parsed-differs:{}:{}", d, if pname == "whole" { "any-plan" } else { pname }), format!("under plan {} the parsed request differs from what the bytes denote in {}: got {:?} / want {:?}; request {}", pname, d, short(&got), short(&want), show_bytes(&bytes)));
                        break;
                    }
                    if first_parsed.is_none() {
                        first_parsed = Some(req);
                    }
                    if nontrivial {
                        rr.shapes.push(fnv64(format!("{}:{}", hash_json(&scn["model"]), pname).as_bytes()));
                    }
                }
            }
        }
        // R3: serialise -> parse -> equal
        if let (Some(req), true) = (first_parsed, rr.violations.is_empty()) {
            rr.count("c02.roundtrips", 1);
            rr.evals += 1;
            let ser = std::panic::catch_unwind(std::panic::AssertUnwindSafe(|| Vec::<u8>::from(req.clone())));
            match ser {
                Err(_) => rr.violate("C02/R3", "serialiser-panicked", "Vec<u8>::from(Request) panicked".to_string()),
                Ok(b2) => match parse_with(&b2, Plan::whole(), peer) {
                    Ok(Ok(r2)) => {
                        let d = diff(&view_of(&r2, &names), &view_of(&req, &names));
                        if !d.is_empty() {
                            rr.violate("C02/R3", format!("roundtrip-differs:{}:{}", d, if wh.len() > 20 { "more-than-20-headers" } else { "up-to-20-headers" }), format!("serialising the parsed request and parsing it again changes {} ({} headers); serialised: {}", d, wh.len(), show_bytes(&b2)));
                        }
                    }
                    Ok(Err(e)) => rr.violate("C02/R3", format!("roundtrip-rejected:{}", e), format!("the serialised request does not parse: {}; {}", e, show_bytes(&b2))),
                    Err(e) => rr.violate("C02/R3", "roundtrip-crashed", e),
                },
            }
        }
        rr.sample = Some(json!({"request": show_bytes(&bytes[..n.min(300)]), "bytes": n, "headers": wh.len(), "plans": rr.evals}));
        rr.trace_hash = fnv64(format!("{:?}{}", rr.violations, rr.evals).as_bytes());
        rr
    }
}

fn short(v: &View) -> String {
    let s = format!("{:?}", v);
    s.chars().take(500).collect()
}
