//! C09 — proxy always answers: upstream's response if valid, else 502, within the timeout.
//!
//! `humphrey::http::proxy::proxy_request` and `humphrey_server::proxy::proxy_handler` run
//! on a simulated thread against a scripted upstream on the simulated network: valid
//! responses (CL / chunked / close-delimited / no body), each cut at every byte by FIN and
//! by RST, garbage, refuse, black-holed SYN, accept-then-silence, accept-then-close,
//! stall after k bytes, one byte per 50 virtual ms.  Deadlines are virtual time.

use crate::common::*;
use crate::props::c02::{gen_model, Model};
use crate::refs::http::*;
use crate::simhttp::*;
use humphrey::http::proxy::proxy_request;
use humphrey::http::Request;
use humphrey_server::config::{Config, LoadBalancerMode};
use humphrey_server::proxy::{proxy_handler, EqMutex, LoadBalancer};
use humphrey_server::rand::Lcg;
use humphrey_server::server::server::AppState;
use humsim::net::{SocketAddr, TcpListener};
use humsim::rng::Rng;
use humsim::sim;
use serde::{Deserialize, Serialize};
use serde_json::{json, Value};
use std::sync::atomic::{AtomicU64, Ordering};
use std::sync::{Arc, Mutex};
use std::time::Duration;

pub struct C09;

#[derive(Serialize, Deserialize, Clone, Debug)]
pub struct Upstream {
    /// valid cut garbage refuse blackhole silence accept-close stall trickle
    pub kind: String,
    pub resp: RespModel,
    #[serde(default)]
    pub cut: usize,
    /// "fin" | "rst"
    #[serde(default)]
    pub cut_kind: String,
    /// garbage: "random" "no-colon" "bare-lf" "multibyte-lf" "bad-status" "unknown-status"
    #[serde(default)]
    pub garbage: String,
    /// "whole" | "onebyte" | "fixed:k" | "random:n"
    #[serde(default)]
    pub seg: String,
    /// late-stall: percentage of the timeout the upstream waits before sending the partial response
    #[serde(default)]
    pub delay_ms: u64,
}

#[derive(Serialize, Deserialize, Clone, Debug)]
pub struct Scn {
    pub sim: SimParams,
    /// "direct" | "handler" | "balance"
    pub mode: String,
    pub req: Model,
    pub upstream: Upstream,
    pub timeout_ms: u64,
    /// handler mode: route pattern, e.g. "/api/*"
    #[serde(default)]
    pub matches: String,
    /// handler mode: "plain" (prefix + path) | "prefix-repeated" (the literal prefix occurs twice
    /// in a row at the start) | "prefix-thrice" | "equal-prefix" (nothing after the prefix) |
    /// "prefix-later" (the prefix text occurs again further down the path)
    #[serde(default)]
    pub path_shape: String,
    #[serde(default)]
    pub targets: usize,
    #[serde(default)]
    pub lb_random: bool,
    #[serde(default)]
    pub threads: usize,
    #[serde(default)]
    pub picks: usize,
    /// handler mode: the configured target is not a usable address ("" from a trailing comma in the
    /// target list, an address without a port, a port that is not a number): nothing can be
    /// connected to, which is a bad gateway like a refused connection
    #[serde(default)]
    pub bad_target: Option<String>,
}

fn garbage_bytes(kind: &str, rng_seed: u64) -> Vec<u8> {
    match kind {
        "no-colon" => b"HTTP/1.1 200 OK\r\nServer x\r\nContent-Length: 2\r\n\r\nhi".to_vec(),
        "bare-lf" => b"HTTP/1.1 200 OK\nContent-Length: 2\n\nhi".to_vec(),
        "multibyte-lf" => "HTTP/1.1 200 OK\r\nX-Name: caf\u{e9}\n\r\nhi".as_bytes().to_vec(),
        "bad-status" => b"HTTP/1.1 two-hundred OK\r\nContent-Length: 2\r\n\r\nhi".to_vec(),
        "not-http" => b"SSH-2.0-OpenSSH_9.0\r\n".to_vec(),
        "bad-length" => b"HTTP/1.1 200 OK\r\nContent-Length: abc\r\n\r\nhi".to_vec(),
        "bad-chunk" => b"HTTP/1.1 200 OK\r\nTransfer-Encoding: chunked\r\n\r\nzz\r\nhi\r\n0\r\n\r\n".to_vec(),
        _ => Rng::new(rng_seed).bytes(40),
    }
}

/// Is the prefix `wire[..cut]` still the complete response?  (Only for close-delimited and
/// body-less framings can a shorter prefix be a *different* but complete message.)
fn complete_at(_m: &RespModel, wire: &[u8], cut: usize) -> bool {
    cut >= wire.len()
}

/// A chunked response whose data and last-chunk line have all arrived (only trailer fields or
/// the final CRLF of the terminator are missing) carries its complete content: relaying it or
/// answering 502 are both accepted.
fn content_complete_at(m: &RespModel, wire: &[u8], cut: usize) -> bool {
    m.effective_framing() == "chunked" && cut + m.bytes_after_last_chunk_line() >= wire.len()
}

/// A response after which a conforming upstream may keep the connection open.
fn self_delimiting(m: &RespModel) -> bool {
    no_body_status(m.status) || m.effective_framing() == "cl" || m.effective_framing() == "chunked"
}

struct UpLog {
    received: Vec<u8>,
    accepted: bool,
}

fn read_request(s: &mut humsim::net::TcpStream) -> Vec<u8> {
    use std::io::Read;
    let mut buf = Vec::new();
    let mut tmp = [0u8; 4096];
    let _ = s.set_read_timeout(Some(Duration::from_secs(3)));
    loop {
        // complete when head + Content-Length body are in
        if let Some(p) = buf.windows(4).position(|w| w == b"\r\n\r\n") {
            let head = String::from_utf8_lossy(&buf[..p]).to_ascii_lowercase();
            let cl = head.lines().find_map(|l| l.strip_prefix("content-length:").map(|v| v.trim().parse::<usize>().unwrap_or(0))).unwrap_or(0);
            if buf.len() >= p + 4 + cl {
                return buf;
            }
        }
        match s.read(&mut tmp) {
            Ok(0) => return buf,
            Ok(n) => buf.extend_from_slice(&tmp[..n]),
            Err(e) if e.kind() == std::io::ErrorKind::Interrupted => continue,
            Err(_) => return buf,
        }
    }
}

fn run_upstream(l: TcpListener, up: Upstream, log: Arc<Mutex<UpLog>>, rng_seed: u64) {
    let (mut s, _) = match l.accept() {
        Ok(x) => x,
        Err(_) => return,
    };
    log.lock().unwrap().accepted = true;
    if !up.seg.is_empty() {
        s.sim_set_seg(parse_seg(&up.seg));
    }
    if up.kind == "accept-close" {
        return;
    }
    if up.kind == "slow-reader" {
        // A tiny receive window, drained a few bytes at a time at intervals shorter than the
        // timeout: every single write of the proxy makes progress before a per-write timeout
        // would fire, yet the request as a whole takes several timeouts to get through.
        use std::io::Read;
        s.sim_set_window(16);
        let mut tmp = [0u8; 16];
        if up.cut % 3 == 0 {
            // never drains at all
            humsim::thread::sleep(Duration::from_secs(3600));
            return;
        }
        for _ in 0..60 {
            humsim::thread::sleep(Duration::from_millis(up.delay_ms.max(1)));
            let _ = s.set_read_timeout(Some(Duration::from_millis(1)));
            match s.read(&mut tmp) {
                Ok(0) => return,
                _ => {}
            }
        }
        return;
    }
    let req = read_request(&mut s);
    log.lock().unwrap().received = req;
    let wire = up.resp.render();
    match up.kind.as_str() {
        "valid" => {
            write_all(&mut s, &wire);
            if self_delimiting(&up.resp) && up.cut % 2 == 1 {
                // a keep-alive upstream: does not close after a self-delimiting response
                humsim::thread::sleep(Duration::from_secs(3600));
            }
        }
        "cut" => {
            let k = up.cut.min(wire.len());
            write_all(&mut s, &wire[..k]);
            if up.cut_kind == "rst" {
                // let the bytes arrive first, then reset
                humsim::thread::sleep(Duration::from_millis(5));
                s.sim_reset();
            }
        }
        "garbage" => {
            write_all(&mut s, &garbage_bytes(&up.garbage, rng_seed));
        }
        "silence" => humsim::thread::sleep(Duration::from_secs(3600)),
        "stall" => {
            let k = up.cut.min(wire.len().saturating_sub(1));
            write_all(&mut s, &wire[..k]);
            humsim::thread::sleep(Duration::from_secs(3600));
        }
        "late-stall" => {
            // nothing for a fraction of the timeout, then part of the response, then silence
            humsim::thread::sleep(Duration::from_millis(up.delay_ms));
            let k = up.cut.clamp(1, wire.len().saturating_sub(1).max(1));
            write_all(&mut s, &wire[..k.min(wire.len())]);
            humsim::thread::sleep(Duration::from_secs(3600));
        }
        "trickle" => {
            for b in wire.iter() {
                if !write_all(&mut s, &[*b]) {
                    break;
                }
                humsim::thread::sleep(Duration::from_millis(50));
            }
        }
        _ => {}
    }
}

impl Prop for C09 {
    fn id(&self) -> &'static str {
        "C09"
    }
    fn level(&self) -> &'static str {
        "fault_enumeration"
    }
    fn runs(&self, tier: Tier) -> u64 {
        match tier {
            Tier::Quick => 30_000,
            Tier::Thorough => 4_000_000,
        }
    }
    fn rule(&self) -> &'static str {
        "One case = one client request (C02 generator) proxied to one scripted upstream behaviour. Run indices walk the cut offsets of generated valid responses (39 status codes; Content-Length / chunked with random chunkings and hex case / close-delimited / body-less) so that, for every generated response in the batch, EVERY byte offset is cut once by FIN and once by RST; interleaved with the other behaviours: valid (closing and keep-alive upstreams), garbage (8 kinds), connection refused, black-holed SYN, accept-then-silence, accept-then-close, a configured target that is not a usable address (empty, no port, bad port), stall after k bytes, nothing for 30..90% of the timeout then a partial response then silence, one byte per 50 virtual ms, a 16-byte receive window drained 16 bytes at a time every 30..90% of the timeout or never (each write of the proxy makes progress, the request as a whole does not get through in time); through proxy_request directly and through the server's proxy_handler (prefix stripping for the patterns /api/*, /*, /a/b/*, /api* with paths in which the literal prefix occurs once, twice or three times in a row, alone, or again further down), plus target-selection cases (1..4 targets; 1..8 threads selecting through the real EqMutex<LoadBalancer>, or 1..8 concurrent requests through the real proxy_handler to upstreams that answer with their index). Distinct = distinct (behaviour, status, framing, cut offset class, outcome); non-trivial = the upstream accepted a connection or a fault was injected."
    }
    fn assumptions(&self) -> Vec<String> {
        vec![
            "deadlines are virtual time; 'within the timeout' means call duration <= timeout + 100 ms + 10% (virtual time has no scheduling noise beyond per-decision CPU ticks)".into(),
            "status codes are drawn from the 39 Humphrey models".into(),
            "a cut response may be relayed only if the cut came after its last byte".into(),
            "epochs are restricted to 1970..2096 so the server's LCG seed arithmetic stays in range".into(),
        ]
    }
    fn expected_counters(&self) -> Vec<&'static str> {
        vec!["c09.valid", "c09.cut_fin", "c09.cut_rst", "c09.garbage", "c09.refuse", "c09.blackhole", "c09.silence", "c09.accept_close", "c09.stall", "c09.late-stall", "c09.trickle", "c09.slow-reader", "c09.handler_mode", "c09.unusable_target_address", "c09.balance_through_handler", "c09.handler_path.prefix-repeated", "c09.handler_path.equal-prefix", "c09.handler_path.prefix-later", "c09.balance_mode", "c09.framing.chunked", "c09.framing.close", "c09.framing.cl", "c09.framing.none", "c09.keepalive_upstream", "net.connect_refused", "net.connect_blackholed", "net.rst_sent"]
    }
    fn real_vs_stub(&self) -> (Vec<&'static str>, Vec<&'static str>) {
        (vec!["humphrey::http::proxy::proxy_request", "Response::from_stream + parse_chunk", "From<Request> for Vec<u8>", "humphrey_server::proxy::{proxy_handler, LoadBalancer::select_target, EqMutex}", "Lcg"], vec!["TcpStream / connect_timeout / timeouts (humsim::net)", "Instant/SystemTime (virtual)", "the upstream is a scripted reference server"])
    }

    fn generate(&self, seed: u64, idx: u64, tier: Tier) -> Value {
        // batches of 400 indices share one response model so that its cut offsets are all visited
        let batch = idx / 400;
        let within = idx % 400;
        let mut brng = Rng::new(run_seed(seed, "C09-batch", batch));
        let resp = gen_resp_model(&mut brng, if tier == Tier::Quick { 300 } else { 3000 });
        let wire_len = resp.render().len();
        let mut rng = Rng::new(run_seed(seed, "C09", idx));
        let req = gen_model(&mut rng, Tier::Quick);
        let mut up = Upstream { kind: "valid".into(), resp, cut: 0, cut_kind: "fin".into(), garbage: String::new(), seg: ["", "", "onebyte", "random:4", "fixed:7"][rng.usize_below(5)].into(), delay_ms: 0 };
        let mut mode = "direct".to_string();
        // first 2*min(wire_len,150) indices of a batch: cut at offset k by fin / rst
        let ncut = wire_len.min(150) as u64;
        if within < 2 * ncut {
            up.kind = "cut".into();
            up.cut = if wire_len <= 150 { (within / 2) as usize } else { ((within / 2) as usize * wire_len) / 150 };
            up.cut_kind = if within % 2 == 0 { "fin".into() } else { "rst".into() };
        } else {
            let r = rng.below(100);
            up.kind = match r {
                0..=39 => "valid",
                40..=54 => "garbage",
                55..=60 => "refuse",
                61..=65 => "blackhole",
                66..=72 => "silence",
                73..=78 => "accept-close",
                79..=83 => "stall",
                84..=88 => "late-stall",
                89..=92 => "trickle",
                93..=95 => "slow-reader",
                _ => "valid",
            }
            .into();
            up.cut = rng.usize_below(wire_len.max(1));
            up.garbage = ["random", "no-colon", "bare-lf", "multibyte-lf", "bad-status", "not-http", "bad-length", "bad-chunk"][rng.usize_below(8)].into();
            if up.kind == "valid" && rng.chance(1, 3) {
                up.resp = gen_resp_model(&mut rng, 3000);
            }
            if r >= 96 {
                mode = "balance".into();
            } else if rng.chance(1, 3) {
                mode = "handler".into();
            }
        }
        let mut sim = SimParams::draw(&mut rng, true);
        sim.epoch_secs = 1_000_000 + rng.below(3_900_000_000);
        sim.rx_capacity = None;
        sim.max_decisions = 300_000;
        let timeout_ms = [200u64, 1000, 5000][rng.usize_below(3)];
        // virtual CPU cost per decision is kept small: a byte-wise transfer of a 64 KiB request is
        // tens of thousands of decisions and must stay well inside the shortest timeout
        sim.cpu_tick_max_ns = Some(400);
        // (a percentage of the effective timeout; resolved in execute)
        up.delay_ms = [30u64, 50, 70, 90][rng.usize_below(4)];
        // the network itself is fast relative to the timeout (slowness is the upstream's script)
        sim.latency_max_ns = sim.latency_max_ns.map(|l| l.min(timeout_ms * 1_000_000 / 40));
        let scn = Scn {
            sim,
            mode,
            req,
            upstream: up,
            timeout_ms,
            matches: ["/api/*", "/*", "/a/b/*", "/api*"][rng.usize_below(4)].into(),
            path_shape: ["plain", "plain", "prefix-repeated", "prefix-thrice", "equal-prefix", "prefix-later"][rng.usize_below(6)].into(),
            targets: rng.range(1, 4) as usize,
            lb_random: rng.chance(1, 2),
            threads: rng.range(1, 8) as usize,
            picks: rng.range(1, 6) as usize,
            bad_target: None,
        };
        let mut scn = scn;
        if scn.mode == "handler" && Rng::new(humsim::rng::mix(&[run_seed(seed, "C09", idx), 0xC09_0002])).chance(1, 10) {
            scn.bad_target = Some(["", "10.1.0.1", "10.1.0.1:http", "10.1.0.1:99999"][(idx % 4) as usize].to_string());
        }
        serde_json::to_value(scn).unwrap()
    }

    fn execute(&self, scenario: &Value) -> RunResult {
        let mut rr = RunResult { evals: 1, ..Default::default() };
        let scn: Scn = match serde_json::from_value(scenario.clone()) {
            Ok(s) => s,
            Err(e) => {
                rr.harness_error = Some(format!("bad scenario: {}", e));
                return rr;
            }
        };
        if scn.mode == "balance" {
            return self.balance(&scn, rr);
        }
        let up_addr: SocketAddr = "10.1.0.1:9000".parse().unwrap();
        let uplog = Arc::new(Mutex::new(UpLog { received: vec![], accepted: false }));
        // (status, headers, body, virtual ns taken)
        let result: Arc<Mutex<Option<(u16, Vec<(String, String)>, Vec<u8>, u64)>>> = Arc::new(Mutex::new(None));
        let (scn2, uplog2, result2) = (scn.clone(), uplog.clone(), result.clone());
        let handler = scn.mode == "handler";
        let timeout_ms = if handler { 5000 } else { scn.timeout_ms.max(50) };
        // in handler mode the client's path must start with the literal part of the pattern
        let mut model = scn.req.clone();
        let prefix: String = scn.matches.chars().take_while(|c| *c != '*').collect();
        if handler {
            let rest = model.path.trim_start_matches('/').to_string();
            let again = prefix.trim_start_matches('/').to_string();
            model.path = match scn.path_shape.as_str() {
                "prefix-repeated" if !again.is_empty() => format!("{}{}{}", prefix, again, rest),
                "prefix-thrice" if !again.is_empty() => format!("{}{}{}{}", prefix, again, again, rest),
                "equal-prefix" => prefix.clone(),
                "prefix-later" if !again.is_empty() => format!("{}{}/{}", prefix, rest, again),
                _ => format!("{}{}", prefix, rest),
            };
            rr.count(&format!("c09.handler_path.{}", if ["prefix-repeated", "prefix-thrice", "equal-prefix", "prefix-later"].contains(&scn.path_shape.as_str()) { scn.path_shape.as_str() } else { "plain" }), 1);
        }
        let model2 = model.clone();
        let mut scn2 = scn2;
        scn2.upstream.delay_ms = timeout_ms * scn.upstream.delay_ms.clamp(10, 95) / 100;
        if scn.upstream.kind == "slow-reader" {
            // the window must be small from the first byte on
            scn2.sim.rx_capacity = Some(16);
        }
        let outcome = sim::run(scn2.sim.to_config(), move || {
            let scn = scn2;
            match scn.upstream.kind.as_str() {
                "refuse" => {}
                "blackhole" => humsim::net::sim_blackhole(up_addr),
                _ => {
                    let l = TcpListener::bind(up_addr).expect("bind upstream");
                    let (up, log) = (scn.upstream.clone(), uplog2.clone());
                    let seed = scn.sim.seed;
                    humsim::thread::spawn(move || run_upstream(l, up, log, seed));
                }
            }
            let bytes = model2.render();
            let peer: SocketAddr = model2.peer.parse().unwrap_or_else(|_| "10.9.9.9:5555".parse().unwrap());
            let req = match Request::from_stream(&mut &bytes[..], peer) {
                Ok(r) => r,
                Err(_) => return,
            };
            let t0 = sim::now_ns();
            let resp = if handler {
                let mut cfg = Config::default();
                cfg.logging.console = false;
                let state = Arc::new(AppState::from(cfg));
                let lb = EqMutex::new(LoadBalancer { targets: vec![scn.bad_target.clone().unwrap_or_else(|| up_addr.to_string())], mode: LoadBalancerMode::RoundRobin, index: 0, lcg: Lcg::new() });
                proxy_handler(req, state, &lb, &scn.matches)
            } else {
                proxy_request(&req, up_addr, Duration::from_millis(timeout_ms))
            };
            let dt = sim::now_ns() - t0;
            let headers: Vec<(String, String)> = resp.headers.iter().map(|h| (h.name.to_string().to_ascii_lowercase(), h.value.clone())).collect();
            *result2.lock().unwrap() = Some((u16::from(resp.status_code), headers, resp.body.clone(), dt));
        });
        rr.absorb(&outcome);
        let mut up_eff = scn.upstream.clone();
        if handler && scn.bad_target.is_some() {
            // nothing is ever connected to: whatever the upstream was scripted to do, the answer is 502
            up_eff.kind = "refuse".into();
            rr.count("c09.unusable_target_address", 1);
        }
        let up = &up_eff;
        let kind = up.kind.as_str();
        rr.count(&format!("c09.{}", match kind { "cut" => if up.cut_kind == "rst" { "cut_rst" } else { "cut_fin" }, "accept-close" => "accept_close", k => k }), 1);
        if handler {
            rr.count("c09.handler_mode", 1);
        }
        if kind == "valid" || kind == "cut" {
            rr.count(&format!("c09.framing.{}", up.resp.effective_framing()), 1);
        }
        if kind == "valid" && self_delimiting(&up.resp) && up.cut % 2 == 1 {
            rr.count("c09.keepalive_upstream", 1);
        }
        let tag = format!("{}:{}", kind, if kind == "cut" || kind == "valid" || kind == "stall" || kind == "late-stall" || kind == "trickle" { up.resp.effective_framing() } else if kind == "garbage" { up.garbage.as_str() } else { "-" });
        let res = result.lock().unwrap().clone();
        let panics: Vec<String> = outcome.panics.iter().map(|p| format!("{}: {} at {}", p.thread, p.message, p.location)).collect();
        if !panics.is_empty() && outcome.panics.iter().any(|p| p.thread == "driver") {
            let site = outcome.panics.iter().find(|p| p.thread == "driver").map(|p| p.location.rsplit('/').next().unwrap_or("").split(':').take(2).collect::<Vec<_>>().join(":")).unwrap_or_default();
            rr.violate("C09/R2", format!("proxy-panicked:{}:{}", site, tag), format!("proxying panicked: {:?}", panics));
        } else if outcome.status != sim::EndStatus::Completed {
            rr.violate("C09/R1", format!("proxy-hangs:{}", tag), format!("the run ended {:?}: the proxy call never returned (upstream behaviour {})", outcome.status, tag));
        } else if let Some((status, headers, body, dt)) = res {
            // virtual time has no scheduling noise beyond per-decision CPU ticks: the slack is small
            let slack_ms = 100 + timeout_ms / 10;
            if dt > (timeout_ms + slack_ms) * 1_000_000 {
                rr.violate("C09/R1", format!("no-response-within-timeout:{}", tag), format!("the proxy call took {} virtual ms with a timeout of {} ms (upstream behaviour {})", dt / 1_000_000, timeout_ms, tag));
            }
            let wire = up.resp.render();
            let expect_relay = kind == "valid" || (kind == "cut" && complete_at(&up.resp, &wire, up.cut)) || (kind == "trickle" && (wire.len() as u64) * 50 + 200 < timeout_ms);
            // a chunked response whose content (everything up to and including the last-chunk line) got
            // through before the upstream stalled: trailer fields may still be missing, and a recipient
            // that does not wait for them relays the complete content
            let sent_before_stall = match kind {
                "stall" => Some(up.cut.min(wire.len().saturating_sub(1))),
                "late-stall" => Some(up.cut.clamp(1, wire.len().saturating_sub(1).max(1)).min(wire.len())),
                _ => None,
            };
            let content_end = wire.len().saturating_sub(up.resp.bytes_after_last_chunk_line());
            let stalled_after_content = up.resp.effective_framing() == "chunked" && sent_before_stall.map(|k| k >= content_end).unwrap_or(false);
            let trickled_content = kind == "trickle" && up.resp.effective_framing() == "chunked" && (content_end as u64) * 50 < timeout_ms + 1000;
            let relay_or_502 = (kind == "trickle" && !expect_relay && (wire.len() as u64) * 50 < timeout_ms + 1000) || (kind == "cut" && !expect_relay && content_complete_at(&up.resp, &wire, up.cut)) || (!expect_relay && (stalled_after_content || trickled_content));
            let mut hs = headers.clone();
            hs.sort();
            let is_relay = status == up.resp.status && body == up.resp.effective_body() && hs == up.resp.expected_headers();
            if expect_relay {
                if !is_relay {
                    let what = if status != up.resp.status { format!("status-{}", if status == 502 { "502" } else { "other" }) } else if body != up.resp.effective_body() { "body".to_string() } else { "headers".to_string() };
                    rr.violate("C09/R3", format!("valid-response-not-relayed:{}:{}", what, up.resp.effective_framing()), format!("upstream sent a valid {} response ({} body bytes, framing {}) but the proxy returned status {} with {} body bytes, headers {:?} (expected {:?}); wire: {}", up.resp.status, up.resp.effective_body().len(), up.resp.effective_framing(), status, body.len(), hs, up.resp.expected_headers(), show_bytes(&wire)));
                }
            } else if relay_or_502 {
                if status != 502 && !is_relay {
                    rr.violate("C09/R4", format!("fault-not-502:{}", tag), format!("upstream behaviour {} produced status {} with {} body bytes", tag, status, body.len()));
                }
            } else if status != 502 {
                let detail = if kind == "cut" { format!("cut by {} at byte {} of {}", up.cut_kind, up.cut.min(wire.len()), wire.len()) } else { String::new() };
                // a close-delimited response cut inside its body is indistinguishable from a shorter one
                let indistinguishable = kind == "cut" && up.cut_kind == "fin" && up.resp.effective_framing() == "close" && {
                    let head_end = wire.windows(4).position(|w| w == b"\r\n\r\n").map(|p| p + 4).unwrap_or(usize::MAX);
                    up.cut >= head_end && status == up.resp.status && body == wire[head_end..up.cut.min(wire.len())]
                };
                let bodyless_complete = kind == "cut" && up.resp.effective_framing() == "none" && up.cut >= wire.len();
                if !indistinguishable && !bodyless_complete {
                    rr.violate("C09/R4", format!("fault-not-502:{}:{}", tag, if kind == "cut" { if status == up.resp.status { if body.len() < up.resp.effective_body().len() { "partial-body-relayed" } else { "relayed-before-complete" } } else { "other-status" } } else { "answered" }), format!("upstream behaviour {} {} must give 502 but the proxy returned {} with {} body bytes; wire {}", tag, detail, status, body.len(), show_bytes(&wire[..wire.len().min(200)])));
                }
            }
            // R5: what the upstream received
            let log = uplog.lock().unwrap();
            if log.accepted && kind != "accept-close" && !log.received.is_empty() {
                let peer: SocketAddr = model.peer.parse().unwrap_or_else(|_| "10.9.9.9:5555".parse().unwrap());
                match crate::props::c02::parse_with(&log.received, crate::scripted::Plan::whole(), peer) {
                    Ok(Ok(got)) => {
                        let (want, mut names) = crate::props::c02::expected_view(&model);
                        if !names.contains(&"x-forwarded-for".to_string()) {
                            names.push("x-forwarded-for".into());
                        }
                        let gv = crate::props::c02::view_of(&got, &names);
                        let want_uri = if handler {
                            let stripped = model.path[prefix.len().min(model.path.len())..].to_string();
                            if stripped.starts_with('/') { stripped } else { format!("/{}", stripped) }
                        } else {
                            model.path.clone()
                        };
                        let mut problems = Vec::new();
                        if gv.method != want.method {
                            problems.push("method");
                        }
                        if gv.uri != want_uri {
                            problems.push("path");
                        }
                        if gv.query != want.query {
                            problems.push("query");
                        }
                        if gv.version != want.version {
                            problems.push("version");
                        }
                        if gv.body != want.body {
                            problems.push("body");
                        }
                        for (n, vals) in &want.headers {
                            let g = gv.headers.iter().find(|(k, _)| k == n).map(|(_, v)| v.clone()).unwrap_or_default();
                            if n == "x-forwarded-for" {
                                continue;
                            }
                            if &g != vals {
                                problems.push("headers");
                                break;
                            }
                        }
                        // exactly one added X-Forwarded-For carrying the client's (origin) address
                        let xff_got = gv.headers.iter().find(|(k, _)| k == "x-forwarded-for").map(|(_, v)| v.clone()).unwrap_or_default();
                        let mut xff_want: Vec<String> = want.headers.iter().find(|(k, _)| k == "x-forwarded-for").map(|(_, v)| v.clone()).unwrap_or_default();
                        xff_want.push(want.origin.to_string());
                        let mut a = xff_got.clone();
                        let mut b = xff_want.clone();
                        a.sort();
                        b.sort();
                        if a != b {
                            problems.push("x-forwarded-for");
                        }
                        if !problems.is_empty() {
                            rr.violate("C09/R5", format!("upstream-request-altered:{}", problems.join("+")), format!("the upstream received a request differing in {:?}: got uri {:?} xff {:?} (want uri {:?} xff {:?}); received {}", problems, gv.uri, xff_got, want_uri, xff_want, show_bytes(&log.received)));
                        }
                    }
                    _ => {
                        rr.violate("C09/R5", "upstream-request-unparsable", format!("the bytes the upstream received are not a well-formed request: {}", show_bytes(&log.received)));
                    }
                }
            }
            rr.shapes.push(fnv64(format!("{}:{}:{}:{}:{}", tag, up.resp.status, if kind == "cut" { up.cut.min(200) } else { 0 }, status, handler).as_bytes()));
        } else {
            rr.harness_error = Some("request model did not parse".into());
        }
        rr.sample = Some(json!({"mode": scn.mode, "upstream": tag, "status_sent": up.resp.status, "cut": up.cut, "cut_kind": up.cut_kind, "result_status": result.lock().unwrap().as_ref().map(|r| r.0), "virtual_ms": result.lock().unwrap().as_ref().map(|r| r.3 / 1_000_000)}));
        rr
    }
}

impl C09 {
    fn balance(&self, scn: &Scn, mut rr: RunResult) -> RunResult {
        rr.count("c09.balance_mode", 1);
        let n = scn.targets.clamp(1, 4);
        let targets: Vec<String> = (0..n).map(|i| format!("10.1.0.{}:9000", i + 1)).collect();
        // Half of the round-robin cases go through the real proxy_handler: K concurrent requests,
        // every target a tiny upstream that answers with its own index.  Whatever the order, strict
        // rotation from index 0 means that after K selections target j was chosen once for every
        // position p < K with p mod n == j.
        if !scn.lb_random && scn.picks % 2 == 0 {
            rr.count("c09.balance_through_handler", 1);
            let k = scn.threads.clamp(1, 8);
            let answers: Arc<Mutex<Vec<String>>> = Arc::new(Mutex::new(Vec::new()));
            let (a2, t2, sim_cfg) = (answers.clone(), targets.clone(), scn.sim.to_config());
            let outcome = sim::run(sim_cfg, move || {
                for (j, t) in t2.iter().enumerate() {
                    let l = TcpListener::bind(t.parse::<SocketAddr>().expect("target address")).expect("bind upstream");
                    humsim::thread::spawn(move || {
                        while let Ok((mut s, _)) = l.accept() {
                            humsim::thread::spawn(move || {
                                let mut log = crate::simhttp::RecvLog::new();
                                while !log.bytes.windows(4).any(|w| w == b"\r\n\r\n") && !log.ended() {
                                    if !crate::simhttp::read_some(&mut s, &mut log, Duration::from_secs(5)) {
                                        break;
                                    }
                                }
                                let body = format!("t{}", j);
                                let _ = crate::simhttp::write_all(&mut s, format!("HTTP/1.1 200 OK\r\nContent-Length: {}\r\n\r\n{}", body.len(), body).as_bytes());
                            });
                        }
                    });
                }
                let mut cfg = Config::default();
                cfg.logging.console = false;
                let state = Arc::new(AppState::from(cfg));
                let lb = Arc::new(EqMutex::new(LoadBalancer { targets: t2.clone(), mode: LoadBalancerMode::RoundRobin, index: 0, lcg: Lcg::new() }));
                let mut hs = Vec::new();
                for c in 0..k {
                    let (state, lb, a) = (state.clone(), lb.clone(), a2.clone());
                    hs.push(humsim::thread::spawn(move || {
                        let bytes = format!("GET /x{} HTTP/1.1\r\nHost: a\r\n\r\n", c).into_bytes();
                        let req = match Request::from_stream(&mut &bytes[..], "10.9.9.9:5555".parse().unwrap()) {
                            Ok(r) => r,
                            Err(_) => return,
                        };
                        let resp = proxy_handler(req, state, &lb, "/*");
                        a.lock().unwrap().push(format!("{} {}", u16::from(resp.status_code), String::from_utf8_lossy(&resp.body)));
                    }));
                }
                for h in hs {
                    let _ = h.join();
                }
            });
            rr.absorb(&outcome);
            if outcome.status != sim::EndStatus::Completed || outcome.panics.iter().any(|p| p.thread != "driver") {
                let p: Vec<String> = outcome.panics.iter().map(|p| format!("{} at {}", p.message, p.location)).collect();
                rr.violate("C09/R6", "target-selection-failed", format!("{:?} {:?}", outcome.status, p));
                return rr;
            }
            let got = answers.lock().unwrap().clone();
            let mut counts = vec![0usize; n];
            for g in &got {
                match g.strip_prefix("200 t").and_then(|x| x.parse::<usize>().ok()) {
                    Some(j) if j < n => counts[j] += 1,
                    _ => {
                        rr.violate("C09/R6", "balanced-request-not-relayed", format!("a concurrent request through proxy_handler was answered {:?}", g));
                        return rr;
                    }
                }
            }
            let want: Vec<usize> = (0..n).map(|j| (0..k).filter(|p| p % n == j).count()).collect();
            if counts != want || got.len() != k {
                rr.violate("C09/R6", "round-robin-order-broken:concurrent-requests", format!("{} concurrent requests over {} targets: targets were used {:?} times, strict rotation gives {:?}", k, n, counts, want));
            }
            rr.shapes.push(fnv64(format!("balh:{}:{}", n, k).as_bytes()));
            rr.sample = Some(json!({"mode": "balance-through-handler", "targets": n, "concurrent_requests": k, "uses_per_target": counts}));
            return rr;
        }
        let picks: Arc<Mutex<Vec<(u64, String)>>> = Arc::new(Mutex::new(Vec::new()));
        let (p2, t2, scn2) = (picks.clone(), targets.clone(), scn.clone());
        let outcome = sim::run(scn.sim.to_config(), move || {
            let lb = Arc::new(EqMutex::new(LoadBalancer { targets: t2, mode: if scn2.lb_random { LoadBalancerMode::Random } else { LoadBalancerMode::RoundRobin }, index: 0, lcg: Lcg::new() }));
            let seq = Arc::new(AtomicU64::new(0));
            let mut hs = Vec::new();
            for _ in 0..scn2.threads.clamp(1, 8) {
                let (lb, seq, p) = (lb.clone(), seq.clone(), p2.clone());
                let k = scn2.picks.clamp(1, 8);
                hs.push(humsim::thread::spawn(move || {
                    for _ in 0..k {
                        // exactly what proxy_handler does
                        let mut g = lb.lock().unwrap();
                        let t = g.select_target();
                        let s = seq.fetch_add(1, Ordering::SeqCst);
                        drop(g);
                        p.lock().unwrap().push((s, t));
                        humsim::thread::yield_now();
                    }
                }));
            }
            for h in hs {
                let _ = h.join();
            }
        });
        rr.absorb(&outcome);
        if outcome.status != sim::EndStatus::Completed || !outcome.panics.is_empty() {
            let p: Vec<String> = outcome.panics.iter().map(|p| format!("{} at {}", p.message, p.location)).collect();
            rr.violate("C09/R6", "target-selection-failed", format!("{:?} {:?}", outcome.status, p));
        }
        let mut v = picks.lock().unwrap().clone();
        v.sort();
        for (i, (_, t)) in v.iter().enumerate() {
            if !targets.contains(t) {
                rr.violate("C09/R6", "target-outside-configured-set", format!("selected {:?}, configured {:?}", t, targets));
            }
            if !scn.lb_random && *t != targets[i % n] {
                rr.violate("C09/R6", "round-robin-order-broken", format!("selection {} (in lock order) was {} but strict rotation gives {}; sequence {:?}", i, t, targets[i % n], v.iter().map(|x| x.1.clone()).collect::<Vec<_>>()));
                break;
            }
        }
        rr.shapes.push(fnv64(format!("bal:{}:{}:{}:{}", n, scn.lb_random, scn.threads, v.len()).as_bytes()));
        rr.sample = Some(json!({"mode": "balance", "targets": n, "random": scn.lb_random, "threads": scn.threads, "sequence": v.iter().map(|x| x.1.clone()).collect::<Vec<_>>()}));
        rr
    }
}
