//! C10 — WebSocket frames encode to the RFC 6455 layout and decode back under any split.
//!
//! Seam: the decoder's own `T: Read` parameter driven by a scripted reader (the "schedule"
//! is the read-size plan); the crate-private `Frame` is reached through the cfg-gated
//! `humphrey_ws::verif` hook.  All 65 536 two-byte headers are enumerated.

use crate::common::*;
use crate::refs::ws::{self, Dec, RFrame};
use crate::scripted::{Plan, ScriptedReader};
use humphrey_ws::verif::{decode, encode, RawFrame};
use humsim::rng::Rng;
use serde_json::{json, Value};

pub struct C10;

const LENGTHS: [usize; 11] = [0, 1, 124, 125, 126, 127, 128, 65534, 65535, 65536, 65537];

fn hdecode(bytes: &[u8], plan: Plan) -> Result<Result<RawFrame, String>, String> {
    let mut rd = ScriptedReader::new(bytes, plan);
    let r = std::panic::catch_unwind(std::panic::AssertUnwindSafe(|| decode(&mut rd)));
    match r {
        Ok(x) => {
            if rd.exhausted {
                return Err("decoder exceeded the read-call budget".into());
            }
            Ok(x)
        }
        Err(_) => Err("decoder panicked".into()),
    }
}

fn same(h: &RawFrame, r: &RFrame) -> Option<String> {
    if h.fin != r.fin {
        return Some("fin".into());
    }
    if h.rsv != r.rsv {
        return Some("rsv".into());
    }
    if h.opcode != r.opcode {
        return Some("opcode".into());
    }
    if h.mask != r.mask.is_some() {
        return Some("mask-flag".into());
    }
    if let Some(k) = r.mask {
        if h.masking_key != k {
            return Some("masking-key".into());
        }
    }
    if h.length != r.payload.len() as u64 {
        return Some("length".into());
    }
    if h.payload != r.payload {
        return Some("payload-not-unmasked".into());
    }
    None
}

fn plans(rng: &mut Rng, n: usize, exhaustive_splits: bool) -> Vec<(&'static str, Plan)> {
    let mut v = vec![("whole", Plan::whole()), ("bytewise", Plan::bytewise())];
    if exhaustive_splits {
        for k in 1..n {
            v.push(("split", Plan::split_at(k)));
        }
    } else if n > 2 {
        for _ in 0..6 {
            v.push(("split", Plan::split_at(1 + rng.usize_below(n - 1))));
        }
        // splits inside the header / extended length / key
        for k in 1..n.min(15) {
            v.push(("split", Plan::split_at(k)));
        }
    }
    let mut sizes = Vec::new();
    let mut left = n;
    while left > 0 {
        let k = 1 + rng.usize_below(left.min(9));
        sizes.push(k);
        left -= k;
    }
    v.push(("chunks", Plan::chunks(sizes)));
    let mut p = Plan::bytewise();
    p.eintr_before = vec![0, 2, 3, 7];
    v.push(("eintr", p));
    v
}

impl C10 {
    fn check_bytes(&self, rr: &mut RunResult, rng: &mut Rng, bytes: &[u8], what: &str, exhaustive_splits: bool) {
        let expect = ws::decode(bytes);
        let n = bytes.len();
        for (pname, plan) in plans(rng, n, exhaustive_splits) {
            rr.evals += 1;
            match (hdecode(bytes, plan), &expect) {
                (Err(e), _) => rr.violate("C10/R2", format!("decoder-{}:{}", if e.contains("panic") { "panicked" } else { "no-termination" }, pname), format!("{} on {} under plan {}: {}", e, what, pname, show_bytes(&bytes[..n.min(40)]))),
                (Ok(Ok(h)), Dec::Frame(r, used)) => {
                    if let Some(field) = same(&h, r) {
                        rr.violate("C10/R2", format!("decoded-frame-differs:{}:{}", field, pname), format!("{} under plan {}: decoded {:?} but the bytes denote fin={} rsv={:?} opcode={} mask={:?} len={}; bytes {}", what, pname, RawFrame { payload: h.payload.iter().take(16).copied().collect(), ..h.clone() }, r.fin, r.rsv, r.opcode, r.mask, r.payload.len(), show_bytes(&bytes[..n.min(40)])));
                    }
                    let _ = used;
                }
                (Ok(Ok(_)), Dec::BadOpcode) => rr.violate("C10/R4", format!("reserved-opcode-accepted:{}", pname), format!("{}: reserved opcode {:#x} was decoded into a frame", what, bytes[0] & 0xF)),
                (Ok(Ok(_)), Dec::NeedMore) => rr.violate("C10/R3", format!("truncated-input-decoded:{}", pname), format!("{}: truncated input produced a frame", what)),
                (Ok(Err(_)), Dec::Frame(r, _)) => rr.violate("C10/R2", format!("valid-frame-rejected:{}", pname), format!("{} under plan {}: a complete valid frame (opcode {}, len {}) was rejected; bytes {}", what, pname, r.opcode, r.payload.len(), show_bytes(&bytes[..n.min(40)]))),
                (Ok(Err(_)), Dec::BadOpcode) => {}
                (Ok(Err(e)), Dec::NeedMore) => {
                    if e != "ReadError" && !(e == "InvalidOpcode" && n >= 1 && !ws::OPCODES.contains(&(bytes[0] & 0xF))) {
                        rr.violate("C10/R3", format!("truncated-input-wrong-error:{}", e), format!("{}: truncated input gave {} instead of a read error", what, e));
                    }
                }
            }
        }
    }

    /// every truncation of `bytes` (or a sample of them for long frames) must be a read error
    fn check_truncations(&self, rr: &mut RunResult, rng: &mut Rng, bytes: &[u8], what: &str) {
        let n = bytes.len();
        let offs: Vec<usize> = if n <= 80 { (0..n).collect() } else { (0..16).chain((0..12).map(|_| rng.usize_below(n))).chain([n - 1]).collect() };
        let reserved = n >= 1 && !ws::OPCODES.contains(&(bytes[0] & 0xF));
        for k in offs {
            for (pname, plan) in [("whole", Plan::whole()), ("bytewise", Plan::bytewise())] {
                rr.evals += 1;
                let mut plan = plan;
                if k % 3 == 2 {
                    plan.end_error = Some(std::io::ErrorKind::ConnectionReset);
                }
                match hdecode(&bytes[..k], plan) {
                    Err(e) => rr.violate("C10/R3", format!("decoder-{}-on-truncation", if e.contains("panic") { "panicked" } else { "no-termination" }), format!("{} truncated at {} of {} ({}): {}", what, k, n, pname, e)),
                    Ok(Ok(_)) => rr.violate("C10/R3", "truncated-input-decoded", format!("{} truncated at {} of {} bytes was decoded into a frame", what, k, n)),
                    Ok(Err(e)) => {
                        if e != "ReadError" && !(reserved && k >= 2 && e == "InvalidOpcode") {
                            rr.violate("C10/R3", format!("truncated-input-wrong-error:{}", e), format!("{} truncated at {} of {}: {} instead of a read error", what, k, n, e));
                        }
                    }
                }
            }
        }
    }
}

impl Prop for C10 {
    fn id(&self) -> &'static str {
        "C10"
    }
    fn level(&self) -> &'static str {
        "fault_enumeration"
    }
    fn runs(&self, tier: Tier) -> u64 {
        match tier {
            Tier::Quick => 256 + 1500,
            Tier::Thorough => 256 + 120_000,
        }
    }
    fn exhaustive(&self, _tier: Tier) -> bool {
        false
    }
    fn rule(&self) -> &'static str {
        "Part A (run indices 0..255, one per first header byte): ALL 256 x 256 two-byte headers, each followed by a complete remainder (extended length, key, payload <= 300 bytes; 16/64-bit length values drawn incl. non-minimal forms; one 64-bit length in three has high bits set (2^63, 2^62, 2^31..2^56) above a small low part, so that what follows is a truncated frame) decoded under the read plans {whole, one byte per read, every split point (frames <= 64 bytes) or header/extended-length/key splits + random ones, random chunks, EINTR before reads}, and truncated at EVERY offset (EOF and ConnectionReset). Part B: random frames over FIN x RSV x 6 opcodes x mask off/on (random keys, the all-zero key, all-ones, single-bit and four-equal-bytes keys) x lengths {0,1,124,125,126,127,128,65534,65535,65536,65537, random <= 1 MiB}: Humphrey's encoder vs the reference encoder, decode of both encodings under the plans, Message::to_frame. Distinct non-trivial case = distinct (header bytes, length class, plan kind) for part A and distinct (opcode, flags, length, mask) for part B; evaluations = decoder/encoder calls."
    }
    fn assumptions(&self) -> Vec<String> {
        vec![
            "the hook humphrey_ws::verif only forwards to Frame::from_stream / From<Frame> for Vec<u8>".into(),
            "claimed lengths are kept <= 1 MiB here; huge claimed lengths belong to C03 (allocation bound, needs process isolation)".into(),
            "a frame value with mask=true holds the application payload; RFC 6455 §5.3 requires it masked on the wire".into(),
            "the all-65536-headers sub-space is enumerated completely; remainders and long frames are sampled".into(),
        ]
    }
    fn expected_counters(&self) -> Vec<&'static str> {
        vec!["c10.headers_enumerated", "c10.reserved_opcode_headers", "c10.len16", "c10.len64", "c10.len64_high_bits_set_over_small_low_part", "c10.masked", "c10.roundtrip_frames", "c10.long_frames"]
    }
    fn real_vs_stub(&self) -> (Vec<&'static str>, Vec<&'static str>) {
        (vec!["humphrey_ws Frame::from_stream / from_stream_inner, Opcode::try_from, From<Frame> for Vec<u8>, Message::to_frame"], vec!["the byte source is a scripted reader (read sizes, EINTR, EOF/reset at an offset)"])
    }

    fn generate(&self, seed: u64, idx: u64, _tier: Tier) -> Value {
        json!({"part": if idx < 256 { "headers" } else { "frames" }, "b0": idx.min(255), "seed": run_seed(seed, "C10", idx), "n": 12})
    }

    fn execute(&self, scn: &Value) -> RunResult {
        let mut rr = RunResult::default();
        let mut rng = Rng::new(scn["seed"].as_u64().unwrap_or(1));
        if scn["part"] == "headers" {
            let b0 = scn["b0"].as_u64().unwrap_or(0) as u8;
            for b1 in 0..=255u8 {
                rr.count("c10.headers_enumerated", 1);
                let masked = b1 & 0x80 != 0;
                let l7 = (b1 & 0x7F) as usize;
                let mut bytes = vec![b0, b1];
                let plen = if l7 < 126 {
                    l7
                } else if l7 == 126 {
                    rr.count("c10.len16", 1);
                    let v = [0usize, 1, 125, 126, 127, 300][rng.usize_below(6)];
                    bytes.extend((v as u16).to_be_bytes());
                    v
                } else {
                    rr.count("c10.len64", 1);
                    let v = [0usize, 5, 126, 300][rng.usize_below(4)];
                    // one time in three the 64-bit field claims far more than follows: high bits set
                    // above a small low part (the supplied remainder is then a truncated frame)
                    let high: u64 = match rng.below(9) {
                        0 => 1 << 63,
                        1 => 1 << 62,
                        2 => [1u64 << 32, 1 << 31, 1 << 40, 1 << 48, 1 << 56, 0xFFFF_FFFF_0000_0000][rng.usize_below(6)],
                        _ => 0,
                    };
                    if high != 0 {
                        rr.count("c10.len64_high_bits_set_over_small_low_part", 1);
                    }
                    bytes.extend(((v as u64) | high).to_be_bytes());
                    v
                };
                if masked {
                    rr.count("c10.masked", 1);
                    bytes.extend(rng.bytes(4));
                }
                bytes.extend(rng.bytes(plen));
                if !ws::OPCODES.contains(&(b0 & 0xF)) {
                    rr.count("c10.reserved_opcode_headers", 1);
                }
                let what = format!("header {:02x} {:02x}", b0, b1);
                let ex = bytes.len() <= 64;
                self.check_bytes(&mut rr, &mut rng, &bytes, &what, ex);
                self.check_truncations(&mut rr, &mut rng, &bytes, &what);
                rr.shapes.push(fnv64(format!("{}:{}:{}:{}", b0, b1, plen, ex).as_bytes()));
            }
            rr.sample = Some(json!({"part": "headers", "first_byte": format!("{:#04x}", b0), "second_bytes": "0x00..=0xff", "plans": ["whole", "bytewise", "every split / header splits", "random chunks", "EINTR"], "truncations": "every offset"}));
        } else {
            let n = scn["n"].as_u64().unwrap_or(12);
            let mut samples = Vec::new();
            for j in 0..n {
                rr.count("c10.roundtrip_frames", 1);
                let opcode = ws::OPCODES[rng.usize_below(6)];
                let len = match rng.below(4) {
                    0 | 1 => LENGTHS[rng.usize_below(LENGTHS.len())],
                    2 => rng.usize_below(400),
                    _ => rng.usize_below(if j == 0 { 1 << 20 } else { 100_000 }),
                };
                if len > 65535 {
                    rr.count("c10.long_frames", 1);
                }
                let f = RFrame {
                    fin: rng.chance(1, 2),
                    rsv: [rng.chance(1, 4), rng.chance(1, 4), rng.chance(1, 4)],
                    opcode,
                    mask: if rng.chance(1, 2) {
                        // any key: random ones, and the ones an "optimisation" would treat specially
                        Some(match rng.below(8) {
                            0 => [0, 0, 0, 0],
                            1 => [0xff; 4],
                            2 => [0, 0, 0, 1],
                            3 => [0x80, 0, 0, 0],
                            4 => {
                                let b = rng.next_u64() as u8;
                                [b; 4]
                            }
                            _ => [rng.next_u64() as u8, rng.next_u64() as u8, rng.next_u64() as u8, rng.next_u64() as u8],
                        })
                    } else {
                        None
                    },
                    payload: rng.bytes(len),
                };
                let wire = f.encode();
                let raw = RawFrame { fin: f.fin, rsv: f.rsv, opcode: f.opcode, mask: f.mask.is_some(), length: len as u64, masking_key: f.mask.unwrap_or([0; 4]), payload: f.payload.clone() };
                rr.evals += 1;
                let what = format!("frame fin={} rsv={:?} opcode={} mask={:?} len={}", f.fin, f.rsv, f.opcode, f.mask, len);
                match std::panic::catch_unwind(|| encode(&raw)) {
                    Err(_) => rr.violate("C10/R1", "encoder-panicked", what.clone()),
                    Ok(None) => rr.violate("C10/R1", "encoder-refused-valid-opcode", what.clone()),
                    Ok(Some(hw)) => {
                        if hw != wire {
                            let at = hw.iter().zip(wire.iter()).position(|(a, b)| a != b).unwrap_or(hw.len().min(wire.len()));
                            let hdr = 2 + if len >= 65536 { 8 } else if len >= 126 { 2 } else { 0 } + if f.mask.is_some() { 4 } else { 0 };
                            let wherep = if at >= hdr { "payload" } else if at < 2 { "header" } else { "length-or-key" };
                            rr.violate("C10/R1", format!("encoding-differs-from-rfc6455:{}:{}", wherep, if f.mask.is_some() { "masked" } else { "unmasked" }), format!("{}: encoder output differs from the RFC 6455 §5.2 layout at byte {} ({}): got {} want {}", what, at, wherep, show_bytes(&hw[..hw.len().min(24)]), show_bytes(&wire[..wire.len().min(24)])));
                        }
                        // round trip through Humphrey's own encoder
                        rr.evals += 1;
                        match hdecode(&hw, Plan::whole()) {
                            Ok(Ok(h)) => {
                                if let Some(field) = same(&h, &f) {
                                    rr.violate("C10/R2", format!("roundtrip-differs:{}:{}", field, if f.mask.is_some() { "masked" } else { "unmasked" }), format!("{}: decode(encode(f)) differs in {}", what, field));
                                }
                            }
                            Ok(Err(e)) => rr.violate("C10/R2", "roundtrip-rejected", format!("{}: decode(encode(f)) failed with {}", what, e)),
                            Err(e) => rr.violate("C10/R2", "roundtrip-crashed", format!("{}: {}", what, e)),
                        }
                    }
                }
                self.check_bytes(&mut rr, &mut rng, &wire, &what, wire.len() <= 64);
                if j % 4 == 0 {
                    self.check_truncations(&mut rr, &mut rng, &wire, &what);
                }
                // R5 Message::to_frame
                rr.evals += 1;
                let m = humphrey_ws::message::Message::new(&f.payload);
                let text = std::str::from_utf8(&f.payload).is_ok();
                let want = RFrame::new(if text { 1 } else { 2 }, f.payload.clone()).encode();
                if m.to_frame() != want {
                    rr.violate("C10/R5", "message-to-frame", format!("Message::new(len {}).to_frame() is not an unmasked FIN {} frame", len, if text { "text" } else { "binary" }));
                }
                let mb = humphrey_ws::message::Message::new_binary(&f.payload);
                if mb.to_frame() != RFrame::new(2, f.payload.clone()).encode() {
                    rr.violate("C10/R5", "message-binary-to-frame", format!("Message::new_binary(len {}).to_frame() is not an unmasked FIN binary frame", len));
                }
                rr.shapes.push(fnv64(format!("{}:{}:{:?}:{}:{}", f.opcode, f.fin, f.rsv, len, f.mask.is_some()).as_bytes()));
                if samples.len() < 3 {
                    samples.push(what);
                }
            }
            rr.sample = Some(json!({"part": "frames", "frames": samples}));
        }
        rr.trace_hash = fnv64(format!("{:?}{}", rr.violations, rr.evals).as_bytes());
        rr
    }
}
