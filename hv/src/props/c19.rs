//! C19 — a blacklisted address never receives content.
//!
//! `humphrey_server::server::server::main(config)` runs whole as a simulated thread from a
//! generated `Config` (blacklist mode x list x route types x cache); clients connect from
//! chosen source addresses — any IPv4/IPv6 address, which only a simulated network allows
//! — with X-Forwarded-For absent or naming listed / unlisted addresses.

use crate::common::*;
use crate::refs::http::*;
use crate::simhttp::*;
use humphrey_server::config::{BlacklistConfig, BlacklistMode, CacheConfig, Config, HostConfig, LoadBalancerMode, RouteConfig, RouteType};
use humphrey_server::proxy::{EqMutex, LoadBalancer};
use humphrey_server::rand::Lcg;
use humsim::net::{IpAddr, SocketAddr, TcpListener};
use humsim::rng::Rng;
use humsim::sim;
use serde::{Deserialize, Serialize};
use serde_json::{json, Value};
use std::sync::atomic::{AtomicU64, Ordering};
use std::sync::{Arc, Mutex};
use std::time::Duration;

pub struct C19;

#[derive(Serialize, Deserialize, Clone, Debug)]
pub struct Rq {
    /// "file" | "dir" | "proxy" | "redirect" | "unrouted"
    pub kind: String,
    #[serde(default)]
    pub xff: Vec<String>,
    #[serde(default)]
    pub xff_sep: String,
}

#[derive(Serialize, Deserialize, Clone, Debug)]
pub struct Cl {
    pub src: String,
    pub reqs: Vec<Rq>,
    #[serde(default)]
    pub start_ms: u64,
}

#[derive(Serialize, Deserialize, Clone, Debug)]
pub struct Scn {
    pub sim: SimParams,
    pub v6: bool,
    /// IPv4 clients and an IPv4 blacklist, but the server listens on [::] (dual stack): it sees
    /// its peers as ::ffff:a.b.c.d
    #[serde(default)]
    pub dual_stack: bool,
    /// "block" | "forbidden"
    pub mode: String,
    pub list: Vec<String>,
    pub cache: bool,
    pub threads: usize,
    pub clients: Vec<Cl>,
    /// the IPv4 entries of the blacklist are written in their IPv4-mapped IPv6 spelling
    /// (`::ffff:a.b.c.d`, the form in which a server listening on [::] logs its IPv4 clients):
    /// the same addresses, so the same clients are listed
    #[serde(default)]
    pub list_mapped: bool,
}

const FILE_BYTES: &[u8] = b"FILE-CONTENT-secret-0123456789";
const DIR_BYTES: &[u8] = b"<html>DIR-CONTENT-secret</html>";
const INDEX_BYTES: &[u8] = b"<html>INDEX-CONTENT-secret</html>";
const UP_BYTES: &[u8] = b"UPSTREAM-CONTENT-secret";

fn pool(v6: bool) -> Vec<&'static str> {
    if v6 {
        vec!["::1", "fd00::1", "fd00::2", "fd00::3", "2001:db8::7"]
    } else {
        vec!["127.0.0.1", "127.8.9.10", "10.5.0.1", "10.5.0.2", "10.5.0.3", "192.168.1.77"]
    }
}

/// X-Forwarded-For entries that are not addresses (skipped by a parser that keeps the valid ones).
const JUNK: [&str; 5] = ["unknown", "", "10.0.0.1:4711", "[2001:db8::1]", "_hidden"];

const ROUTED: [&str; 7] = ["file", "dir", "proxy", "redirect", "dir-sub-redirect", "dir-index", "dir-missing"];

fn path_of(kind: &str) -> &'static str {
    match kind {
        "file" => "/f",
        "dir" => "/d/x.html",
        // a sub-directory of the directory route: without the trailing slash (answered by a
        // redirect to the slash form), with it (its index.html), and a file that does not exist
        "dir-sub-redirect" => "/d/sub",
        "dir-index" => "/d/sub/",
        "dir-missing" => "/d/nope.html",
        "proxy" => "/p/q",
        "redirect" => "/r",
        _ => "/zzz",
    }
}

impl Prop for C19 {
    fn id(&self) -> &'static str {
        "C19"
    }
    fn level(&self) -> &'static str {
        "exploration"
    }
    fn runs(&self, tier: Tier) -> u64 {
        match tier {
            Tier::Quick => 20_000,
            Tier::Thorough => 1_000_000,
        }
    }
    fn rule(&self) -> &'static str {
        "One case = the whole server started from a generated Config (blacklist mode block/forbidden x list empty / the client's address / others, IPv4 (one case in five written in the IPv4-mapped spelling ::ffff:a.b.c.d), IPv6, or IPv4 clients on a dual-stack [::] listener x routes of all four types: file, directory, proxy to a scripted upstream, redirect x cache on/off x 1..4 threads) and 1..3 clients connecting from chosen source addresses (loopback, private, documentation ranges; IPv6) sending 1..4 keep-alive requests each on routed paths (a file route; a directory route: a file in it, a sub-directory without and with the trailing slash, a missing file; a proxy route; a redirect route) and unrouted paths with X-Forwarded-For absent or listing listed/unlisted addresses (',' or ', ' separators, several entries, sometimes with an entry that is not an address among them, one request in twelve with a chain of 31..200 mostly unlisted entries); a history dimension: an unlisted client warms the cache for the path a listed client then asks. Distinct = distinct (mode, listedness of peer and of each forwarded entry, route kind, position in the connection, cache state, outcome); non-trivial = the blacklist is non-empty and at least one request involves a listed address."
    }
    fn assumptions(&self) -> Vec<String> {
        vec![
            "a listed address anywhere in the forwarding chain (origin, intermediate proxy, or the peer itself) must be refused in forbidden mode when it is the peer or the origin; a listed intermediate entry may be refused or served".into(),
            "unrouted paths may answer 403 or 404 (no content either way)".into(),
            "std::fs is real (scratch directory under /verif/target/scratch)".into(),
            "the server's main never returns; the run ends when the clients are done".into(),
        ]
    }
    fn expected_counters(&self) -> Vec<&'static str> {
        vec!["c19.xff_with_unparseable_entry", "c19.blacklist_entries_in_ipv4_mapped_spelling", "c19.xff_chain_of_32_or_more", "c19.dual_stack_listener", "c19.block_mode", "c19.forbidden_mode", "c19.listed_peer_requests", "c19.forged_xff_by_listed_peer", "c19.unlisted_peer_forwarding_listed", "c19.all_unlisted_requests", "c19.ipv6_runs", "c19.cache_on", "c19.kind.file", "c19.kind.dir", "c19.kind.dir-sub-redirect", "c19.kind.dir-index", "c19.kind.dir-missing", "c19.kind.proxy", "c19.kind.redirect", "c19.kind.unrouted", "c19.cache_warmed_then_listed"]
    }
    fn real_vs_stub(&self) -> (Vec<&'static str>, Vec<&'static str>) {
        (vec!["humphrey_server::server::server::main (whole), verify_connection, file/directory/redirect/proxy handlers, blacklist_check, cache, Logger + monitor thread, humphrey::App, Address::from_headers, proxy_request"], vec!["TCP with arbitrary peer addresses, threads, clocks (humsim)", "upstream and clients are harness reference implementations", "std::fs real"])
    }

    fn generate(&self, seed: u64, idx: u64, tier: Tier) -> Value {
        let mut rng = Rng::new(run_seed(seed, "C19", idx));
        let v6 = rng.chance(1, 4);
        let p = pool(v6);
        let nlist = match rng.below(5) {
            0 => 0,
            1 | 2 => 1,
            _ => rng.range(1, 3),
        } as usize;
        let mut list: Vec<String> = Vec::new();
        while list.len() < nlist {
            let a = p[rng.usize_below(p.len())].to_string();
            if !list.contains(&a) {
                list.push(a);
            }
        }
        let nclients = rng.range(1, 3) as usize;
        let mut clients = Vec::new();
        for ci in 0..nclients {
            // bias: half of the clients come from a listed address when there is one
            let src = if !list.is_empty() && rng.chance(1, 2) { list[rng.usize_below(list.len())].clone() } else { p[rng.usize_below(p.len())].to_string() };
            let nreq = rng.range(1, if tier == Tier::Quick { 3 } else { 4 }) as usize;
            let reqs = (0..nreq)
                .map(|_| {
                    let kind = ["file", "dir", "proxy", "redirect", "unrouted", "file", "dir", "dir-sub-redirect", "dir-index", "dir-missing"][rng.usize_below(10)].to_string();
                    let nx = match rng.below(4) {
                        0 | 1 => 0,
                        2 => 1,
                        _ => rng.range(2, 3),
                    } as usize;
                    let xff = (0..nx).map(|_| if !list.is_empty() && rng.chance(1, 2) { list[rng.usize_below(list.len())].clone() } else { p[rng.usize_below(p.len())].to_string() }).collect();
                    let mut xff: Vec<String> = xff;
                    // one request in five carries an entry that is not an address among the valid ones
                    // (an empty entry, `unknown`, an address with a port, a bracketed IPv6 address, an
                    // obfuscated identifier): such an entry is skipped, the others still count
                    {
                        let mut r3 = Rng::new(humsim::rng::mix(&[rng.next_u64(), 0xC19_0003]));
                        if !xff.is_empty() && r3.chance(1, 5) {
                            let at = r3.usize_below(xff.len() + 1);
                            xff.insert(at, JUNK[r3.usize_below(JUNK.len())].to_string());
                        }
                        // one request in twelve carries a long forwarding chain (around and far above
                        // 32 entries) of mostly unlisted addresses: every entry counts, and so does
                        // the peer behind them
                        if r3.chance(1, 12) {
                            let n = [31usize, 32, 33, 34, 40, 64, 200][r3.usize_below(7)];
                            let unlisted: Vec<String> = p.iter().map(|a| a.to_string()).filter(|a| !list.contains(a)).collect();
                            let one_listed_at = if !list.is_empty() && r3.chance(1, 3) { Some(r3.usize_below(n)) } else { None };
                            xff = (0..n).map(|i| if Some(i) == one_listed_at || unlisted.is_empty() { list[r3.usize_below(list.len().max(1)) % list.len().max(1)].clone() } else { unlisted[r3.usize_below(unlisted.len())].clone() }).collect();
                        }
                    }
                    Rq { kind, xff, xff_sep: if rng.chance(1, 2) { ",".into() } else { ", ".into() } }
                })
                .collect();
            clients.push(Cl { src, reqs, start_ms: if ci == 0 { 0 } else { [0u64, 5, 50][rng.usize_below(3)] } });
        }
        let mut sim = SimParams::draw(&mut rng, true);
        sim.rx_capacity = None;
        sim.epoch_secs = 1_000_000 + rng.below(3_900_000_000);
        sim.cpu_tick_max_ns = Some(1000);
        sim.max_decisions = 400_000;
        let dual_stack = !v6 && Rng::new(humsim::rng::mix(&[run_seed(seed, "C19", idx), 0xC19_0002])).chance(1, 4);
        serde_json::to_value(Scn { sim, v6, dual_stack, mode: if rng.chance(1, 2) { "block" } else { "forbidden" }.into(), list, cache: rng.chance(1, 2), threads: rng.range(1, 4) as usize, clients, list_mapped: !v6 && Rng::new(humsim::rng::mix(&[run_seed(seed, "C19", idx), 0xC19_0005])).chance(1, 5) }).unwrap()
    }

    fn execute(&self, scenario: &Value) -> RunResult {
        let mut rr = RunResult { evals: 1, ..Default::default() };
        let scn: Scn = match serde_json::from_value(scenario.clone()) {
            Ok(s) => s,
            Err(e) => {
                rr.harness_error = Some(format!("bad scenario: {}", e));
                return rr;
            }
        };
        let p = pool(scn.v6);
        let fix = |a: &str| -> IpAddr { a.parse::<IpAddr>().ok().filter(|ip| ip.is_ipv6() == scn.v6).unwrap_or_else(|| p[0].parse().unwrap()) };
        let list: Vec<IpAddr> = scn.list.iter().map(|a| fix(a)).collect();
        static DIRN: AtomicU64 = AtomicU64::new(0);
        let dir = format!("/verif/target/scratch/c19-{}-{}", std::process::id(), DIRN.fetch_add(1, Ordering::SeqCst));
        let _ = std::fs::create_dir_all(format!("{}/d", dir));
        let _ = std::fs::write(format!("{}/f.txt", dir), FILE_BYTES);
        let _ = std::fs::write(format!("{}/d/x.html", dir), DIR_BYTES);
        let _ = std::fs::create_dir_all(format!("{}/d/sub", dir));
        let _ = std::fs::write(format!("{}/d/sub/index.html", dir), INDEX_BYTES);
        let server_ip = if scn.v6 || scn.dual_stack { "[::]" } else { "0.0.0.0" };
        if scn.dual_stack && !scn.v6 {
            rr.count("c19.dual_stack_listener", 1);
        }
        let connect_to: SocketAddr = if scn.v6 { "[::1]:8080".parse().unwrap() } else { "127.0.0.1:8080".parse().unwrap() };
        let up_addr: SocketAddr = if scn.v6 { "[fd00::99]:9000".parse().unwrap() } else { "10.4.0.9:9000".parse().unwrap() };
        let mk_route = |t: RouteType, m: &str, path: Option<String>, lb: Option<EqMutex<LoadBalancer>>| RouteConfig { route_type: t, matches: m.into(), path, load_balancer: lb, websocket_proxy: None };
        let cfg = Config {
            address: server_ip.into(),
            port: 8080,
            threads: scn.threads.max(scn.clients.len()).clamp(1, 8),
            default_host: HostConfig {
                matches: "*".into(),
                routes: vec![
                    mk_route(RouteType::File, "/f", Some(format!("{}/f.txt", dir)), None),
                    mk_route(RouteType::Directory, "/d/*", Some(format!("{}/d", dir)), None),
                    mk_route(RouteType::Proxy, "/p/*", None, Some(EqMutex::new(LoadBalancer { targets: vec![up_addr.to_string()], mode: LoadBalancerMode::RoundRobin, index: 0, lcg: Lcg::new() }))),
                    mk_route(RouteType::Redirect, "/r", Some("/elsewhere".into()), None),
                ],
            },
            cache: CacheConfig { size_limit: if scn.cache { 1 << 20 } else { 0 }, time_limit: 60 },
            blacklist: BlacklistConfig { list: list.iter().map(|a| match a { IpAddr::V4(v4) if scn.list_mapped => IpAddr::V6(v4.to_ipv6_mapped()), a => *a }).collect(), mode: if scn.mode == "block" { BlacklistMode::Block } else { BlacklistMode::Forbidden } },
            logging: humphrey_server::config::LoggingConfig { level: humphrey_server::logger::LogLevel::Warn, console: false, file: None },
            ..Config::default()
        };
        // per client, per request: Some((status, body, location)) or None (no response)
        type Got = Vec<Option<(u16, Vec<u8>, String)>>;
        let outs: Vec<Arc<Mutex<(Got, usize, bool)>>> = scn.clients.iter().map(|_| Arc::new(Mutex::new((Vec::new(), 0usize, false)))).collect();
        let (scn2, outs2) = (scn.clone(), outs.clone());
        let cfg_cell = Arc::new(Mutex::new(Some(cfg)));
        let outcome = sim::run(scn.sim.to_config(), move || {
            let scn = scn2;
            // scripted upstream for the proxy route
            if let Ok(l) = TcpListener::bind(up_addr) {
                humsim::thread::spawn(move || loop {
                    let (mut s, _) = match l.accept() {
                        Ok(x) => x,
                        Err(_) => return,
                    };
                    humsim::thread::spawn(move || {
                        let mut log = RecvLog::new();
                        // read the request head
                        loop {
                            if log.bytes.windows(4).any(|w| w == b"\r\n\r\n") || log.ended() {
                                break;
                            }
                            if !read_some(&mut s, &mut log, Duration::from_secs(5)) {
                                break;
                            }
                        }
                        let resp = format!("HTTP/1.1 200 OK\r\nContent-Length: {}\r\nContent-Type: text/plain\r\n\r\n", UP_BYTES.len());
                        write_all(&mut s, resp.as_bytes());
                        write_all(&mut s, UP_BYTES);
                    });
                });
            }
            let cfg = cfg_cell.lock().unwrap().take().unwrap();
            humsim::thread::spawn(move || humphrey_server::server::server::main(cfg));
            let mut hs = Vec::new();
            for (cid, c) in scn.clients.iter().enumerate() {
                let (c, out) = (c.clone(), outs2[cid].clone());
                let src_ip: IpAddr = c.src.parse::<IpAddr>().ok().filter(|ip| ip.is_ipv6() == scn.v6).unwrap_or_else(|| pool(scn.v6)[0].parse().unwrap());
                hs.push(humsim::thread::spawn(move || {
                    humsim::thread::sleep(Duration::from_millis(c.start_ms));
                    let mut s = match connect_retry(Some(SocketAddr::new(src_ip, 0)), connect_to, 300) {
                        Ok(s) => s,
                        Err(_) => return,
                    };
                    let mut log = RecvLog::new();
                    for (i, r) in c.reqs.iter().enumerate() {
                        let mut headers = vec![("Host".to_string(), "sim.test".to_string()), ("Connection".into(), "keep-alive".into())];
                        if !r.xff.is_empty() {
                            headers.push(("X-Forwarded-For".into(), r.xff.join(if r.xff_sep == ", " { ", " } else { "," })));
                        }
                        let bytes = ReqModel { method: "GET".into(), target: path_of(&r.kind).into(), version: "HTTP/1.1".into(), headers, body: None }.render();
                        if !write_all(&mut s, &bytes) {
                            break;
                        }
                        let rs = read_responses(&mut s, &mut log, i + 1, Duration::from_secs(20));
                        match rs.get(i) {
                            Some(resp) => out.lock().unwrap().0.push(Some((resp.status, body_without_tolerated_crlf(resp).to_vec(), resp.header("Location").unwrap_or("").to_string()))),
                            None => {
                                out.lock().unwrap().0.push(None);
                                break;
                            }
                        }
                    }
                    let mut o = out.lock().unwrap();
                    o.1 = log.bytes.len();
                    o.2 = log.eof || log.reset;
                }));
            }
            for h in hs {
                let _ = h.join();
            }
        });
        rr.absorb(&outcome);
        let _ = std::fs::remove_dir_all(&dir);
        rr.count(if scn.mode == "block" { "c19.block_mode" } else { "c19.forbidden_mode" }, 1);
        if scn.list_mapped && !scn.list.is_empty() {
            rr.count("c19.blacklist_entries_in_ipv4_mapped_spelling", 1);
        }
        if scn.v6 {
            rr.count("c19.ipv6_runs", 1);
        }
        if scn.cache {
            rr.count("c19.cache_on", 1);
        }
        if outcome.panics.iter().any(|p| p.location.contains("/repo/")) {
            let p = outcome.panics.iter().find(|p| p.location.contains("/repo/")).unwrap();
            let site = p.location.rsplit('/').next().unwrap_or("").split(':').take(2).collect::<Vec<_>>().join(":");
            rr.violate("C19/R0", format!("server-panicked:{}", site), format!("{}: {} at {}", p.thread, p.message, p.location));
        }
        if outcome.status != sim::EndStatus::Completed {
            rr.violate("C19/R0", format!("run-did-not-complete:{:?}", outcome.status), format!("{:?}", outcome.threads.iter().filter(|t| t.state != "finished").map(|t| format!("{}:{}", t.name, t.op)).take(10).collect::<Vec<_>>()));
            return rr;
        }
        let listed = |ip: &IpAddr| list.contains(ip);
        let mut shape = String::new();
        let mut nontrivial = false;
        // which paths were warmed by an unlisted client before (by request order within this run: approximate by client start order)
        let mut warmed: Vec<&str> = Vec::new();
        for (cid, c) in scn.clients.iter().enumerate() {
            let src_ip: IpAddr = fix(&c.src);
            let (got, nbytes, _closed) = outs[cid].lock().unwrap().clone();
            let peer_listed = listed(&src_ip);
            if scn.mode == "block" && peer_listed {
                rr.count("c19.listed_peer_requests", c.reqs.len() as u64);
                nontrivial = true;
                shape.push_str(&format!("[block-listed:{}]", nbytes.min(1)));
                if nbytes > 0 {
                    rr.violate("C19/R1", "listed-peer-received-bytes-in-block-mode", format!("client {} connecting from listed {} received {} bytes in block mode; first response {:?}", cid, src_ip, nbytes, got.first().map(|g| g.as_ref().map(|x| x.0))));
                }
                continue;
            }
            for (i, r) in c.reqs.iter().enumerate() {
                rr.count(&format!("c19.kind.{}", if ROUTED.contains(&r.kind.as_str()) { r.kind.as_str() } else { "unrouted" }), 1);
                if r.xff.len() >= 32 {
                    rr.count("c19.xff_chain_of_32_or_more", 1);
                }
                if r.xff.iter().any(|a| JUNK.contains(&a.as_str())) {
                    rr.count("c19.xff_with_unparseable_entry", 1);
                }
                let chain: Vec<IpAddr> = r.xff.iter().filter(|a| !JUNK.contains(&a.as_str())).map(|a| fix(a)).collect();
                let origin_listed = chain.last().map(listed).unwrap_or(false);
                let middle_listed = chain.len() > 1 && chain[..chain.len() - 1].iter().any(listed);
                let must_forbid = scn.mode == "forbidden" && (peer_listed || origin_listed);
                // block mode judges the connection only; per-request checks still apply to the origin
                let must_forbid = must_forbid || (scn.mode == "block" && origin_listed);
                let may_forbid = must_forbid || middle_listed;
                if peer_listed {
                    rr.count("c19.listed_peer_requests", 1);
                    if !chain.is_empty() && !origin_listed {
                        rr.count("c19.forged_xff_by_listed_peer", 1);
                    }
                } else if origin_listed {
                    rr.count("c19.unlisted_peer_forwarding_listed", 1);
                } else if !middle_listed {
                    rr.count("c19.all_unlisted_requests", 1);
                }
                if must_forbid {
                    nontrivial = true;
                    if warmed.contains(&path_of(&r.kind)) && scn.cache {
                        rr.count("c19.cache_warmed_then_listed", 1);
                    }
                }
                let routed = ROUTED.contains(&r.kind.as_str());
                let g = match got.get(i) {
                    Some(Some(g)) => g.clone(),
                    _ => {
                        rr.violate("C19/R4", format!("no-response:{}:{}", scn.mode, r.kind), format!("client {} ({}) request {} ({}) got no response", cid, src_ip, i, r.kind));
                        break;
                    }
                };
                shape.push_str(&format!("[{}{}{}{}:{}>{}]", scn.mode.chars().next().unwrap_or('?'), peer_listed as u8, origin_listed as u8, middle_listed as u8, r.kind, g.0));
                let content: &[u8] = match r.kind.as_str() {
                    "file" => FILE_BYTES,
                    "dir" => DIR_BYTES,
                    "dir-index" => INDEX_BYTES,
                    "proxy" => UP_BYTES,
                    _ => b"",
                };
                // (a 301 from the directory route tells the client that the directory exists)
                let leaked = (!content.is_empty() && g.1.windows(content.len()).any(|w| w == content)) || ((r.kind == "redirect" || r.kind == "dir-sub-redirect") && g.0 == 301);
                let who = if peer_listed { if chain.is_empty() { "listed-peer" } else if origin_listed { "listed-peer-forwarding-listed" } else { "listed-peer-forging-unlisted-xff" } } else { "unlisted-peer-forwarding-listed" };
                if must_forbid && r.kind == "dir-missing" {
                    // nothing to serve either way: 403 or 404, never content
                    if g.0 != 403 && g.0 != 404 {
                        rr.violate(if peer_listed { "C19/R2" } else { "C19/R3" }, format!("not-403:{}:{}:{}", who, scn.mode, r.kind), format!("status {} instead of 403/404", g.0));
                    }
                } else if must_forbid && routed {
                    if leaked {
                        rr.violate(if peer_listed { "C19/R2" } else { "C19/R3" }, format!("content-served-to-listed-address:{}:{}:{}", who, scn.mode, r.kind), format!("client {} from {} (listed: {}) with X-Forwarded-For {:?} requested {} and received status {} with the route's content (blacklist {:?}, mode {})", cid, src_ip, peer_listed, r.xff, path_of(&r.kind), g.0, scn.list, scn.mode));
                    } else if g.0 != 403 {
                        rr.violate(if peer_listed { "C19/R2" } else { "C19/R3" }, format!("not-403:{}:{}:{}", who, scn.mode, r.kind), format!("status {} instead of 403", g.0));
                    }
                } else if !may_forbid && routed {
                    let ok = match r.kind.as_str() {
                        "redirect" => g.0 == 301 && g.2 == "/elsewhere",
                        "dir-sub-redirect" => g.0 == 301 && g.2 == "/d/sub/",
                        "dir-missing" => g.0 == 404,
                        _ => g.0 == 200 && g.1 == content,
                    };
                    if !ok {
                        rr.violate("C19/R4", format!("unlisted-client-not-served:{}:{}", r.kind, if g.0 == 403 { "403" } else { "other" }), format!("client {} from {} with X-Forwarded-For {:?} (nothing listed: blacklist {:?}) requested {} and got status {} body {}", cid, src_ip, r.xff, scn.list, path_of(&r.kind), g.0, show_bytes(&g.1[..g.1.len().min(60)])));
                    } else if !warmed.contains(&path_of(&r.kind)) {
                        warmed.push(path_of(&r.kind));
                    }
                } else if !routed && g.0 != 403 && g.0 != 404 {
                    rr.violate("C19/R4", "unrouted-path-status", format!("status {} on an unrouted path", g.0));
                }
            }
        }
        if nontrivial && !scn.list.is_empty() {
            rr.shapes.push(fnv64(format!("{}|{}|{}", shape, scn.cache, scn.v6).as_bytes()));
        }
        rr.sample = Some(json!({"mode": scn.mode, "blacklist": scn.list, "cache": scn.cache, "clients": scn.clients.iter().enumerate().map(|(cid, c)| json!({"from": c.src, "requests": c.reqs.iter().map(|r| format!("{} xff={:?}", path_of(&r.kind), r.xff)).collect::<Vec<_>>(), "statuses": outs[cid].lock().unwrap().0.iter().map(|g| g.as_ref().map(|x| x.0)).collect::<Vec<_>>(), "bytes_received": outs[cid].lock().unwrap().1})).collect::<Vec<_>>()}));
        rr
    }
}
