//! C20 — a shutdown signal always ends `run`, promptly, and frees the port.
//!
//! The real `App::run` with `with_shutdown` runs under the humsim scheduler with 0..16
//! connections each driven into a chosen state at the instant of the signal (just
//! connected, idle keep-alive, half-sent request, handler running short/long in virtual
//! time, response being written to a slow reader, WebSocket open), pools of 1..8 threads
//! including fully occupied ones, the signal sent before `run`, before the first
//! connection, between or concurrently with connects.

use crate::common::*;
use crate::refs::http::*;
use crate::simhttp::*;
use humphrey::http::{Request, Response, StatusCode};
use humphrey::App;
use humphrey_ws::stream::WebsocketStream;
use humphrey_ws::websocket_handler;
use humsim::net::{SocketAddr, TcpListener};
use humsim::rng::Rng;
use humsim::sim;
use serde::{Deserialize, Serialize};
use serde_json::{json, Value};
use std::sync::{Arc, Mutex};
use std::time::Duration;

pub struct C20;

#[derive(Serialize, Deserialize, Clone, Debug)]
pub struct Conn {
    /// virtual ms at which the client connects
    pub at_ms: u64,
    /// "connected" | "idle-keepalive" | "half-request" | "handler-short" | "handler-long"
    /// | "slow-reader" | "websocket" | "plain"
    pub state: String,
}

#[derive(Serialize, Deserialize, Clone, Debug)]
pub struct Scn {
    pub sim: SimParams,
    pub threads: usize,
    /// "127.0.0.1" | "0.0.0.0" | "[::]"
    pub bind: String,
    /// virtual ms at which the signal is sent (0 with `before_run` = before run is called)
    pub signal_ms: u64,
    pub before_run: bool,
    /// rendezvous channel (sync_channel(0)) as in the shutdown example, else an unbounded one
    pub rendezvous: bool,
    pub conns: Vec<Conn>,
    /// the application's connection condition: "" (default, admits everything) | "drain" (refuses
    /// every connection once the application has been told to drain, which happens just before
    /// the signal) | "limit" (admits as many connections as there are scripted clients, then none)
    #[serde(default)]
    pub condition: String,
    /// a second application runs in the same process on another port, with its own shutdown
    /// receiver and a client of its own: a signal sent to the first must leave it alone
    #[serde(default)]
    pub bystander: bool,
    /// the application is asked to listen on port 0 (the system picks the port); no client can
    /// know it, so the case has no connections: the signal alone has to end `run`
    #[serde(default)]
    pub port_zero: bool,
}

/// Application state read by the connection conditions.
#[derive(Default)]
struct CState {
    draining: std::sync::atomic::AtomicBool,
    admitted: std::sync::atomic::AtomicUsize,
    limit: usize,
}

fn cond_drain(_s: &mut humsim::net::TcpStream, st: Arc<CState>) -> bool {
    !st.draining.load(std::sync::atomic::Ordering::SeqCst)
}

fn cond_limit(_s: &mut humsim::net::TcpStream, st: Arc<CState>) -> bool {
    st.admitted.fetch_add(1, std::sync::atomic::Ordering::SeqCst) < st.limit
}

fn big() -> Vec<u8> {
    (0..150_000u32).map(|i| b'A' + (i % 23) as u8).collect()
}

#[derive(Default, Clone)]
struct COut {
    connected: bool,
    request_sent_ns: Option<u64>,
    bytes: Vec<u8>,
    eof: bool,
    done: bool,
    ws_upgraded: bool,
}

impl Prop for C20 {
    fn id(&self) -> &'static str {
        "C20"
    }
    fn level(&self) -> &'static str {
        "exploration"
    }
    fn runs(&self, tier: Tier) -> u64 {
        match tier {
            Tier::Quick => 20_000,
            Tier::Thorough => 1_500_000,
        }
    }
    fn rule(&self) -> &'static str {
        "One case = an App with a shutdown receiver (unbounded or rendezvous channel), a pool of 1..8 threads, a bind address (127.0.0.1 / 0.0.0.0 / [::], with the strict-unspecified-address knob; one case in 25 on port 0, without clients), 0..16 (one case in forty 80..100) client connections each scripted to be in one of {just connected, idle keep-alive, half-sent request, handler running 5 ms / 2 s of virtual time, 150 KB response being written to a 512-byte-window reader, WebSocket open, plain request} when the signal is sent at a chosen virtual instant (before run is called, before the first connection, between or concurrently with connects, with the pool fully occupied), under one seeded schedule; in two cases of five the application has a connection condition that refuses connections when the signal comes (drain mode switched on just before the signal, or a connection limit that the scripted clients have used up), so the server's own wake-up connection is not admitted either; in one case of eight a second application runs in the same process on another port with its own shutdown receiver and client, and must neither be disturbed by the first one's signal nor fail to end on its own. Distinct = distinct (traffic-state multiset at the signal, pool size vs. connections, signal timing class, outcome); non-trivial = at least one connection open at the instant of the signal."
    }
    fn assumptions(&self) -> Vec<String> {
        vec![
            "'promptly' = run returns within 1 virtual second of the signal; the sender of the shutdown channel stays alive until the scenario ends (the server must stop because a signal was sent, not because its sender was dropped)".into(),
            "a response is owed to a request whose last byte was sent at least 100 virtual ms before the signal on a connection that was open then; connections accepted after the flag is set may be dropped".into(),
            "a response that has started to arrive must arrive completely (the simulation keeps running the detached workers)".into(),
            "this phase is the threaded runtime (mpsc shutdown receiver); the tokio runtime (CancellationToken) is exercised by the twin phase C20T of the same check".into(),
        ]
    }
    fn expected_counters(&self) -> Vec<&'static str> {
        vec!["c20.signal_before_run", "c20.signal_before_first_connection", "c20.signal_with_open_connections", "c20.pool_fully_occupied", "c20.state.idle-keepalive", "c20.state.half-request", "c20.state.handler-long", "c20.state.slow-reader", "c20.state.websocket", "c20.state.connected", "c20.bind_unspecified", "c20.rendezvous_channel", "c20.listening_on_port_zero", "c20.second_app_in_the_process", "c20.eighty_or_more_connections", "c20.connection_condition.drain", "c20.connection_condition.limit", "c20.rebinds"]
    }
    fn real_vs_stub(&self) -> (Vec<&'static str>, Vec<&'static str>) {
        (vec!["App::run (accept loop, AtomicBool flag, wake-up connect, unspecified_socket_to_loopback), ThreadPool::{stop, drop}, client_handler, websocket_handler"], vec!["threads, mpsc, atomics, TCP listener/backlog, virtual sleep in handlers (humsim)"])
    }

    fn generate(&self, seed: u64, idx: u64, tier: Tier) -> Value {
        let mut rng = Rng::new(run_seed(seed, "C20", idx));
        let nconns = match rng.below(6) {
            0 => 0,
            1..=3 => rng.range(1, 4),
            _ => rng.range(4, if tier == Tier::Quick { 10 } else { 16 }),
        } as usize;
        let states = ["connected", "idle-keepalive", "half-request", "handler-short", "handler-long", "slow-reader", "websocket", "plain"];
        let signal_ms = [0u64, 1, 20, 200, 500, 1500][rng.usize_below(6)];
        let conns = (0..nconns)
            .map(|_| {
                let at_ms = match rng.below(4) {
                    0 => 0,
                    1 => signal_ms,                               // concurrently with the signal
                    2 => signal_ms.saturating_sub(rng.below(300)), // shortly before
                    _ => rng.below(signal_ms + 50),
                };
                Conn { at_ms, state: states[rng.usize_below(states.len())].into() }
            })
            .collect();
        // one case in forty: far more stalled connections than any pool or backlog bound (80..100
        // that have just connected and send nothing -- a request would have to wait for a worker behind
        // all the others, far beyond any client's patience), all open when the signal comes
        let mut conns: Vec<Conn> = conns;
        {
            let mut r2 = Rng::new(humsim::rng::mix(&[run_seed(seed, "C20", idx), 0xC20_0002]));
            if r2.chance(1, 40) {
                let n = r2.range(80, 100) as usize;
                conns = (0..n).map(|_| Conn { at_ms: r2.below(signal_ms.max(1)), state: "connected".into() }).collect();
            }
        }
        let mut sim = SimParams::draw(&mut rng, true);
        sim.rx_capacity = None;
        sim.latency_max_ns = None;
        sim.strict_unspecified = rng.chance(1, 3);
        sim.cpu_tick_max_ns = Some(1000);
        sim.max_decisions = 600_000;
        serde_json::to_value(Scn { sim, threads: [1usize, 1, 2, 4, 8][rng.usize_below(5)], bind: ["127.0.0.1", "0.0.0.0", "[::]"][rng.usize_below(3)].into(), signal_ms, before_run: signal_ms == 0 && rng.chance(1, 2), rendezvous: rng.chance(1, 3), conns, condition: ["", "", "", "drain", "limit"][rng.usize_below(5)].into(), bystander: Rng::new(humsim::rng::mix(&[run_seed(seed, "C20", idx), 0xC20_0003])).chance(1, 8), port_zero: Rng::new(humsim::rng::mix(&[run_seed(seed, "C20", idx), 0xC20_0004])).chance(1, 25) }).unwrap()
    }

    fn execute(&self, scenario: &Value) -> RunResult {
        let mut rr = RunResult { evals: 1, ..Default::default() };
        let scn: Scn = match serde_json::from_value(scenario.clone()) {
            Ok(s) => s,
            Err(e) => {
                rr.harness_error = Some(format!("bad scenario: {}", e));
                return rr;
            }
        };
        let bind = if ["127.0.0.1", "0.0.0.0", "[::]"].contains(&scn.bind.as_str()) { scn.bind.clone() } else { "127.0.0.1".to_string() };
        let mut scn = scn;
        if scn.port_zero {
            scn.conns.clear();
            scn.bystander = false;
            rr.count("c20.listening_on_port_zero", 1);
        }
        let bind_addr: SocketAddr = format!("{}:{}", bind, if scn.port_zero { 0 } else { 8099 }).parse().unwrap();
        let connect_to: SocketAddr = if bind == "[::]" { "[::1]:8099".parse().unwrap() } else { "127.0.0.1:8099".parse().unwrap() };
        let outs: Vec<Arc<Mutex<COut>>> = scn.conns.iter().map(|_| Arc::new(Mutex::new(COut::default()))).collect();
        // (signal sent ns, run returned ns or None, run result ok, rebind result)
        let meta: Arc<Mutex<(u64, Option<u64>, bool, Option<String>)>> = Arc::new(Mutex::new((0, None, false, None)));
        let (scn2, outs2, meta2) = (scn.clone(), outs.clone(), meta.clone());
        let by_out_outer: Arc<Mutex<(bool, bool, bool, Option<bool>)>> = Arc::new(Mutex::new((false, false, false, None)));
        let by_out2 = by_out_outer.clone();
        let by_out_in = by_out_outer.clone();
        let outcome = sim::run(scn.sim.to_config(), move || {
            let scn = scn2;
            let cstate = CState { limit: scn.conns.len(), ..Default::default() };
            let app: App<CState> = App::new_with_config(scn.threads.clamp(1, 8), cstate)
                .with_route("/ok", |_r: Request, _s: Arc<CState>| Response::new(StatusCode::OK, "ok-body"))
                .with_route("/slow", |r: Request, _s: Arc<CState>| {
                    let ms: u64 = r.query.strip_prefix("ms=").and_then(|v| v.parse().ok()).unwrap_or(5);
                    humsim::thread::sleep(Duration::from_millis(ms));
                    Response::new(StatusCode::OK, "slow-done")
                })
                .with_route("/big", |_r: Request, _s: Arc<CState>| Response::new(StatusCode::OK, big()))
                .with_websocket_route(
                    "/ws",
                    websocket_handler(|mut ws: WebsocketStream, _s: Arc<CState>| {
                        while ws.recv().is_ok() {}
                    }),
                );
            // the signal channel
            enum Tx {
                A(humsim::sync::mpsc::Sender<()>),
                B(humsim::sync::mpsc::SyncSender<()>),
            }
            let (tx, rx) = if scn.rendezvous {
                let (t, r) = humsim::sync::mpsc::sync_channel(0);
                (Tx::B(t), r)
            } else {
                let (t, r) = humsim::sync::mpsc::channel();
                (Tx::A(t), r)
            };
            let app = app.with_shutdown(rx);
            let app = match scn.condition.as_str() {
                "drain" => app.with_connection_condition(cond_drain),
                "limit" => app.with_connection_condition(cond_limit),
                _ => app,
            };
            let drain_state = app.get_state();
            let drains = scn.condition == "drain";
            // (the sender is handed back and kept alive until the scenario ends: a server must stop
            // because a signal was SENT, not because its sender went away afterwards)
            let send_signal = move |meta: &Arc<Mutex<(u64, Option<u64>, bool, Option<String>)>>| -> Tx {
                meta.lock().unwrap().0 = sim::now_ns();
                match &tx {
                    Tx::A(t) => {
                        let _ = t.send(());
                    }
                    Tx::B(t) => {
                        let _ = t.send(());
                    }
                }
                tx
            };
            // a rendezvous send before run is called would block the caller forever (nobody
            // receives yet): send it from a helper thread, as a signal handler would
            let signaller_meta = meta2.clone();
            let before = scn.before_run;
            let signal_ms = scn.signal_ms;
            let signaller = humsim::thread::spawn(move || {
                if !before {
                    humsim::thread::sleep(Duration::from_millis(signal_ms));
                }
                if drains {
                    // "stop taking new connections, then stop": the application is told to drain
                    // immediately before the shutdown signal is sent
                    drain_state.draining.store(true, std::sync::atomic::Ordering::SeqCst);
                }
                send_signal(&signaller_meta)
            });
            if before {
                // let the signal be sent (or be pending at the rendezvous) before run starts
                humsim::thread::sleep(Duration::from_millis(2));
            }
            let run_meta = meta2.clone();
            let runner = humsim::thread::spawn(move || {
                let ok = app.run(bind_addr).is_ok();
                let mut m = run_meta.lock().unwrap();
                m.1 = Some(sim::now_ns());
                m.2 = ok;
            });
            // the bystander application and its client
            let by_addr: SocketAddr = "127.0.0.1:8097".parse().unwrap();
            let by_out = by_out_in;
            let mut by_tx = None;
            let mut by_runner = None;
            let mut by_client = None;
            if scn.bystander {
                let app_b: App<()> = App::new_with_config(2, ()).with_route("/ok", |_r: Request, _s: Arc<()>| Response::new(StatusCode::OK, "bystander-body"));
                let (tx_b, rx_b) = humsim::sync::mpsc::channel::<()>();
                let app_b = app_b.with_shutdown(rx_b);
                by_tx = Some(tx_b);
                by_runner = Some(humsim::thread::spawn(move || app_b.run(by_addr).is_ok()));
                let (out, signal_ms) = (by_out.clone(), scn.signal_ms);
                by_client = Some(humsim::thread::spawn(move || {
                    let get = |conn: &str| ReqModel { method: "GET".into(), target: "/ok".into(), version: "HTTP/1.1".into(), headers: vec![("Host".into(), "sim".into()), ("Connection".into(), conn.into())], body: None }.render();
                    let ok = |log: &RecvLog, n: usize| { let (rs, _) = parse_stream(&log.bytes, false); rs.len() >= n && rs[n - 1].status == 200 && rs[n - 1].body.starts_with(b"bystander-body") };
                    let mut s = match connect_retry(None, by_addr, 50) { Ok(s) => s, Err(_) => return };
                    let mut log = RecvLog::new();
                    write_all(&mut s, &get("keep-alive"));
                    let _ = read_responses(&mut s, &mut log, 1, Duration::from_secs(10));
                    out.lock().unwrap().0 = ok(&log, 1);
                    // well after the other application's signal: the same connection, then a new one
                    humsim::thread::sleep(Duration::from_millis(signal_ms + 400));
                    write_all(&mut s, &get("keep-alive"));
                    let _ = read_responses(&mut s, &mut log, 2, Duration::from_secs(10));
                    out.lock().unwrap().1 = ok(&log, 2);
                    if let Ok(mut s2) = connect_retry(None, by_addr, 5) {
                        let mut log2 = RecvLog::new();
                        write_all(&mut s2, &get("close"));
                        let _ = read_responses(&mut s2, &mut log2, 1, Duration::from_secs(10));
                        out.lock().unwrap().2 = ok(&log2, 1);
                    }
                }));
            }
            // clients
            let mut hs = Vec::new();
            for (cid, c) in scn.conns.iter().enumerate() {
                let (c, out) = (c.clone(), outs2[cid].clone());
                let signal_at = scn.signal_ms;
                hs.push(humsim::thread::spawn(move || {
                    humsim::thread::sleep(Duration::from_millis(c.at_ms));
                    let mut s = match connect_retry(None, connect_to, 20) {
                        Ok(s) => s,
                        Err(_) => {
                            out.lock().unwrap().done = true;
                            return;
                        }
                    };
                    out.lock().unwrap().connected = true;
                    let mut log = RecvLog::new();
                    let req = |target: &str, conn: &str| ReqModel { method: "GET".into(), target: target.into(), version: "HTTP/1.1".into(), headers: vec![("Host".into(), "sim".into()), ("Connection".into(), conn.into())], body: None }.render();
                    let linger = Duration::from_millis(signal_at.saturating_sub(c.at_ms) + 1500);
                    match c.state.as_str() {
                        "connected" => {
                            humsim::thread::sleep(linger);
                        }
                        "idle-keepalive" => {
                            write_all(&mut s, &req("/ok", "keep-alive"));
                            out.lock().unwrap().request_sent_ns = Some(sim::now_ns());
                            let _ = read_responses(&mut s, &mut log, 1, Duration::from_secs(30));
                            humsim::thread::sleep(linger);
                        }
                        "half-request" => {
                            let r = req("/ok", "close");
                            write_all(&mut s, &r[..r.len() / 2]);
                            humsim::thread::sleep(linger);
                            write_all(&mut s, &r[r.len() / 2..]);
                            out.lock().unwrap().request_sent_ns = Some(sim::now_ns());
                            let _ = read_responses(&mut s, &mut log, 1, Duration::from_secs(30));
                        }
                        "handler-short" | "handler-long" => {
                            let ms = if c.state == "handler-long" { 2000 } else { 5 };
                            write_all(&mut s, &req(&format!("/slow?ms={}", ms), "close"));
                            out.lock().unwrap().request_sent_ns = Some(sim::now_ns());
                            read_to_end(&mut s, &mut log, Duration::from_secs(60));
                        }
                        "slow-reader" => {
                            s.sim_set_window(512);
                            write_all(&mut s, &req("/big", "close"));
                            out.lock().unwrap().request_sent_ns = Some(sim::now_ns());
                            // read slowly: 512 bytes per 2 virtual ms
                            loop {
                                if !read_some(&mut s, &mut log, Duration::from_secs(60)) {
                                    break;
                                }
                                humsim::thread::sleep(Duration::from_millis(2));
                            }
                        }
                        "websocket" => {
                            let r = ReqModel { method: "GET".into(), target: "/ws".into(), version: "HTTP/1.1".into(), headers: vec![("Host".into(), "sim".into()), ("Upgrade".into(), "websocket".into()), ("Connection".into(), "Upgrade".into()), ("Sec-WebSocket-Key".into(), "k".into())], body: None }.render();
                            write_all(&mut s, &r);
                            loop {
                                if log.bytes.windows(4).any(|w| w == b"\r\n\r\n") || log.ended() {
                                    break;
                                }
                                if !read_some(&mut s, &mut log, Duration::from_secs(30)) {
                                    break;
                                }
                            }
                            if log.bytes.starts_with(b"HTTP/1.1 101") {
                                out.lock().unwrap().ws_upgraded = true;
                            }
                            humsim::thread::sleep(linger);
                        }
                        _ => {
                            write_all(&mut s, &req("/ok", "close"));
                            out.lock().unwrap().request_sent_ns = Some(sim::now_ns());
                            read_to_end(&mut s, &mut log, Duration::from_secs(30));
                        }
                    }
                    let mut o = out.lock().unwrap();
                    o.bytes = log.bytes.clone();
                    o.eof = log.eof || log.reset;
                    o.done = true;
                }));
            }
            let sender_kept_alive = signaller.join();
            // wait (bounded) for run to return after the signal
            let mut waited = 0;
            while !runner.is_finished() && waited < 10_000 {
                humsim::thread::sleep(Duration::from_millis(1));
                waited += 1;
            }
            if runner.is_finished() {
                // the port must be free again
                let r = TcpListener::bind(bind_addr);
                meta2.lock().unwrap().3 = Some(match r {
                    Ok(l) => {
                        drop(l);
                        "ok".to_string()
                    }
                    Err(e) => format!("{}", e),
                });
            }
            for h in hs {
                let _ = h.join();
            }
            if let (Some(c), Some(tx_b), Some(r)) = (by_client, by_tx, by_runner) {
                let _ = c.join();
                // its own signal ends the bystander
                let _ = tx_b.send(());
                let mut waited = 0;
                while !r.is_finished() && waited < 3000 {
                    humsim::thread::sleep(Duration::from_millis(1));
                    waited += 1;
                }
                by_out.lock().unwrap().3 = Some(r.is_finished() && TcpListener::bind(by_addr).is_ok());
                drop(tx_b);
            }
            drop(sender_kept_alive);
        });
        rr.absorb(&outcome);
        let (t_sig, t_ret, run_ok, rebind) = meta.lock().unwrap().clone();
        // probes
        if scn.before_run {
            rr.count("c20.signal_before_run", 1);
        }
        if bind != "127.0.0.1" {
            rr.count("c20.bind_unspecified", 1);
        }
        if scn.rendezvous {
            rr.count("c20.rendezvous_channel", 1);
        }
        if scn.conns.len() >= 80 {
            rr.count("c20.eighty_or_more_connections", 1);
        }
        if scn.condition == "drain" || scn.condition == "limit" {
            rr.count(&format!("c20.connection_condition.{}", scn.condition), 1);
        }
        let open_at_signal: Vec<&Conn> = scn.conns.iter().filter(|c| c.at_ms < scn.signal_ms).collect();
        if open_at_signal.is_empty() {
            rr.count("c20.signal_before_first_connection", 1);
        } else {
            rr.count("c20.signal_with_open_connections", 1);
        }
        let occupying = open_at_signal.iter().filter(|c| ["idle-keepalive", "half-request", "handler-long", "slow-reader", "websocket", "connected"].contains(&c.state.as_str())).count();
        if occupying >= scn.threads.clamp(1, 8) {
            rr.count("c20.pool_fully_occupied", 1);
        }
        for c in &open_at_signal {
            rr.count(&format!("c20.state.{}", c.state), 1);
        }
        let timing = if scn.before_run { "before-run" } else if open_at_signal.is_empty() { "before-first-connection" } else if occupying >= scn.threads.clamp(1, 8) { "pool-occupied" } else { "with-traffic" };
        let cfg = format!("{}:{}:{}", bind, timing, if scn.rendezvous { "rendezvous" } else { "channel" });
        if scn.bystander {
            rr.count("c20.second_app_in_the_process", 1);
            let (first, after, fresh, ended) = *by_out2.lock().unwrap();
            // (judged only if the bystander served its first request: it was up)
            if first && !(after && fresh) {
                rr.violate("C20/R5", format!("other-app-disturbed-by-the-signal:{}", if !after { "keep-alive-connection" } else { "new-connection" }), format!("a second application in the same process, with its own shutdown receiver, served its client before the first application's signal but afterwards answered: same connection {}, new connection {}", after, fresh));
            } else if first && ended == Some(false) {
                rr.violate("C20/R5", "other-app-does-not-end-on-its-own-signal", "the second application did not return (or free its port) within 3 virtual seconds of its own signal".to_string());
            }
        }
        if outcome.panics.iter().any(|p| p.location.contains("/repo/")) {
            let p = outcome.panics.iter().find(|p| p.location.contains("/repo/")).unwrap();
            let site = p.location.rsplit('/').next().unwrap_or("").split(':').take(2).collect::<Vec<_>>().join(":");
            rr.violate("C20/R1", format!("server-panicked:{}", site), format!("{}: {} at {}", p.thread, p.message, p.location));
        }
        // R1
        match t_ret {
            None => {
                rr.violate("C20/R1", format!("run-did-not-return:{}:{}", cfg, if scn.sim.strict_unspecified { "strict-unspecified" } else { "linux-unspecified" }), format!("run had not returned 10 virtual s after the signal ({:?}); threads {:?}", outcome.status, outcome.threads.iter().filter(|t| t.state != "finished").map(|t| format!("{}:{}", t.name, t.op)).take(10).collect::<Vec<_>>()));
            }
            Some(t) => {
                if !run_ok {
                    rr.violate("C20/R1", format!("run-returned-error:{}", cfg), "run returned Err".to_string());
                }
                if t > t_sig + 1_000_000_000 && t_sig > 0 {
                    rr.violate("C20/R1", format!("run-returned-late:{}", cfg), format!("run returned {} ms after the signal", (t - t_sig) / 1_000_000));
                }
                // R2
                match rebind.as_deref() {
                    Some("ok") => rr.count("c20.rebinds", 1),
                    other => rr.violate("C20/R2", format!("port-not-free:{}", cfg), format!("binding {} again after run returned failed: {:?}", bind_addr, other)),
                }
            }
        }
        if outcome.status != sim::EndStatus::Completed && t_ret.is_some() {
            rr.violate("C20/R4", format!("clients-stuck-after-shutdown:{:?}", outcome.status), format!("{:?}", outcome.threads.iter().filter(|t| t.state != "finished").map(|t| format!("{}:{}", t.name, t.op)).take(10).collect::<Vec<_>>()));
        }
        // R3/R4 per connection
        let mut shape = String::new();
        for (cid, c) in scn.conns.iter().enumerate() {
            let o = outs[cid].lock().unwrap().clone();
            let (rs, end) = parse_stream(&o.bytes, o.eof || o.done);
            let status = rs.first().map(|r| r.status);
            shape.push_str(&format!("[{}:{}:{:?}]", c.state, (c.at_ms < scn.signal_ms) as u8, status));
            if !o.done {
                continue;
            }
            if let StreamEnd::Garbage { at, why } = &end {
                if c.state != "websocket" {
                    rr.violate("C20/R4", "response-not-http", format!("connection {} ({}): byte {}: {}", cid, c.state, at, why));
                    continue;
                }
            }
            // a response that started must be complete
            if let StreamEnd::Incomplete { at, why } = &end {
                if c.state != "websocket" {
                    rr.violate("C20/R4", format!("response-truncated:{}:{}", c.state, timing), format!("connection {} ({}), connected at {} ms, signal at {} ms: the response stops at byte {} of what was received ({}); received {} bytes", cid, c.state, c.at_ms, scn.signal_ms, at, why, o.bytes.len()));
                    continue;
                }
            }
            let want_body: Option<Vec<u8>> = match c.state.as_str() {
                "idle-keepalive" | "half-request" | "plain" => Some(b"ok-body".to_vec()),
                "handler-short" | "handler-long" => Some(b"slow-done".to_vec()),
                "slow-reader" => Some(big()),
                _ => None,
            };
            if let (Some(r), Some(w)) = (rs.first(), &want_body) {
                if r.status != 200 || body_without_tolerated_crlf(r) != &w[..] {
                    rr.violate("C20/R3", format!("wrong-response:{}", c.state), format!("connection {} ({}): status {} body {} bytes (expected 200 with {} bytes)", cid, c.state, r.status, r.body.len(), w.len()));
                }
            }
            // owed: request completely sent >= 100 ms before the signal (or the signal came first... then nothing is owed)
            if let (Some(sent), Some(_)) = (o.request_sent_ns, &want_body) {
                let owed = t_sig > 0 && sent + 100_000_000 <= t_sig && !scn.before_run && c.state != "half-request";
                if owed && rs.is_empty() {
                    rr.violate("C20/R4", format!("request-before-signal-unanswered:{}:{}", c.state, timing), format!("connection {} ({}): request fully sent {} ms before the signal got no response (pool {} threads, {} connections open at the signal)", cid, c.state, (t_sig - sent) / 1_000_000, scn.threads, open_at_signal.len()));
                }
            }
        }
        if !open_at_signal.is_empty() {
            rr.shapes.push(fnv64(format!("{}|{}|{}", shape, cfg, scn.threads).as_bytes()));
        }
        rr.sample = Some(json!({"config": cfg, "threads": scn.threads, "signal_ms": scn.signal_ms, "returned_after_ms": t_ret.map(|t| (t.saturating_sub(t_sig)) / 1_000_000), "rebind": rebind, "connections": scn.conns.iter().enumerate().map(|(cid, c)| format!("at {} ms {} -> {} bytes", c.at_ms, c.state, outs[cid].lock().unwrap().bytes.len())).collect::<Vec<_>>()}));
        rr
    }
}
