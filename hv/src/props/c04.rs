//! C04 — routing: first matching host, then first matching route, else default, else 404.
//!
//! Generated applications (0..4 host sub-apps x 0..6 routes + default, HTTP and WebSocket
//! routes) run as the real `App` on the simulated network; every handler answers with its
//! own identity; requests are sent as 1..6 keep-alive requests per connection on 1..4
//! concurrent connections, so the choice is observed at every position of a connection's
//! history and under concurrency.  The reference router uses an independent glob matcher.
//! The scenario type, generator, reference router and judge are shared with the tokio twin
//! (props/tk.rs, C04T); only the part that runs the App differs.

use crate::common::*;
use crate::refs::glob::glob_match;
#[cfg(not(feature = "tk"))]
use crate::refs::http::*;
#[cfg(not(feature = "tk"))]
use crate::simhttp::*;
#[cfg(not(feature = "tk"))]
use humphrey::http::{Request, Response, StatusCode};
#[cfg(not(feature = "tk"))]
use humphrey::stream::Stream;
#[cfg(not(feature = "tk"))]
use humphrey::{App, SubApp};
#[cfg(not(feature = "tk"))]
use humsim::net::SocketAddr;
use humsim::rng::Rng;
#[cfg(not(feature = "tk"))]
use humsim::sim;
use serde::{Deserialize, Serialize};
use serde_json::{json, Value};
#[cfg(not(feature = "tk"))]
use std::io::Write;
#[cfg(not(feature = "tk"))]
use std::sync::{Arc, Mutex};
#[cfg(not(feature = "tk"))]
use std::time::Duration;

#[cfg(not(feature = "tk"))]
pub struct C04;

#[derive(Serialize, Deserialize, Clone, Debug, Default)]
pub struct HostCfg {
    /// host pattern (ignored for the default app)
    pub pattern: String,
    pub routes: Vec<String>,
    pub ws_routes: Vec<String>,
}

#[derive(Serialize, Deserialize, Clone, Debug)]
pub struct Rq {
    pub host: Option<String>,
    pub path: String,
    #[serde(default)]
    pub query: String,
    #[serde(default)]
    pub ws: bool,
}

#[derive(Serialize, Deserialize, Clone, Debug)]
pub struct Scn {
    pub sim: SimParams,
    pub hosts: Vec<HostCfg>,
    pub default: HostCfg,
    pub clients: Vec<Vec<Rq>>,
}

/// The reference router: identity of the handler that must answer, or None (404 / no upgrade).
pub fn route(scn: &Scn, r: &Rq) -> Option<String> {
    let pick = |h: &HostCfg| -> Option<usize> { if r.ws { h.ws_routes.iter().position(|p| glob_match(p, &r.path)) } else { h.routes.iter().position(|p| glob_match(p, &r.path)) } };
    if let Some(hv) = &r.host {
        if let Some((hi, h)) = scn.hosts.iter().enumerate().find(|(_, h)| glob_match(&h.pattern, hv)) {
            if let Some(ri) = pick(h) {
                return Some(format!("h{}{}{}", hi, if r.ws { "w" } else { "r" }, ri));
            }
        }
    }
    pick(&scn.default).map(|ri| format!("d{}{}", if r.ws { "w" } else { "r" }, ri))
}

#[cfg(not(feature = "tk"))]
fn sub_app(tag: String, h: &HostCfg) -> SubApp<()> {
    let mut s: SubApp<()> = SubApp::new();
    for (ri, p) in h.routes.iter().enumerate() {
        let id = format!("{}r{}", tag, ri);
        s = s.with_route(p, move |_r: Request, _s: Arc<()>| Response::new(StatusCode::OK, id.clone()));
    }
    for (ri, p) in h.ws_routes.iter().enumerate() {
        let id = format!("{}w{}", tag, ri);
        s = s.with_websocket_route(p, move |_r: Request, mut stream: Stream, _s: Arc<()>| {
            let _ = stream.write_all(format!("WS-HANDLER {}", id).as_bytes());
        });
    }
    s
}

const PIECES: [&str; 14] = ["a", "b", "aa", "ab", "aab", "/", ".", "x", "\u{e9}", "\u{1F600}", "api", "ba", "aaab", "example"];

fn gen_text(rng: &mut Rng, lead: &str, n: usize) -> String {
    let mut s = String::from(lead);
    for _ in 0..n {
        s.push_str(PIECES[rng.usize_below(PIECES.len())]);
    }
    s
}

fn gen_pattern(rng: &mut Rng, lead: &str) -> String {
    let mut s = String::from(lead);
    let n = rng.range(0, 4);
    for _ in 0..n {
        match rng.below(5) {
            0 | 1 => s.push('*'),
            2 if rng.chance(1, 3) => s.push_str("**"),
            _ => s.push_str(PIECES[rng.usize_below(PIECES.len())]),
        }
    }
    if rng.chance(1, 6) {
        // self-overlapping literal after a wildcard
        s = format!("{}*{}", lead, ["aab", "abab", "aaab", "a.a"][rng.usize_below(4)]);
    }
    s
}

/// A text that matches `p` (wildcards expanded randomly), possibly then perturbed.
fn text_for(rng: &mut Rng, p: &str) -> String {
    let mut s = String::new();
    for c in p.chars() {
        if c == '*' {
            let k = rng.range(0, 3);
            for _ in 0..k {
                s.push_str(PIECES[rng.usize_below(PIECES.len())]);
            }
        } else {
            s.push(c);
        }
    }
    if rng.chance(1, 4) && !s.is_empty() {
        let chars: Vec<char> = s.chars().collect();
        let k = rng.usize_below(chars.len());
        s = chars.iter().enumerate().filter(|(i, _)| *i != k).map(|(_, c)| *c).collect();
    }
    s
}

/// The scenario of run seed `rs`.
pub fn gen_scn(rs: u64, tier: Tier) -> Scn {
    let mut rng = Rng::new(rs);
    let nh = rng.range(0, 4) as usize;
    let mut hosts = Vec::new();
    for _ in 0..nh {
        // (mixed-case host patterns use capital letters that occur nowhere else in lower case, and
        // requests spell such a host exactly as it is registered: a case-sensitive and a
        // case-insensitive matcher give the same answers on everything generated here)
        let mut pattern = match rng.below(6) {
            5 => ["Q.Corp", "*.Zone.Corp:8*", "Node7.Q*", "WWW.Dock.Corp"][rng.usize_below(4)].to_string(),
            0 => "example.com".to_string(),
            1 => "*.example.com".to_string(),
            2 => gen_pattern(&mut rng, ""),
            3 => format!("{}:8080", gen_pattern(&mut rng, "a")),
            _ => "*aab".to_string(),
        };
        if pattern == "*" || pattern.is_empty() {
            pattern = "*.x".into();
        }
        let nr = rng.range(0, 6) as usize;
        let nw = rng.range(0, 2) as usize;
        hosts.push(HostCfg { pattern, routes: (0..nr).map(|_| gen_pattern(&mut rng, "/")).collect(), ws_routes: (0..nw).map(|_| gen_pattern(&mut rng, "/")).collect() });
    }
    let nr = rng.range(0, 6) as usize;
    let nw = rng.range(0, 3) as usize;
    let default = HostCfg { pattern: "*".into(), routes: (0..nr).map(|_| gen_pattern(&mut rng, "/")).collect(), ws_routes: (0..nw).map(|_| gen_pattern(&mut rng, "/")).collect() };
    let nclients = rng.range(1, 4) as usize;
    let mut clients = Vec::new();
    for _ in 0..nclients {
        let nreq = rng.range(1, if tier == Tier::Quick { 5 } else { 6 }) as usize;
        let mut reqs = Vec::new();
        for i in 0..nreq {
            let ws = i + 1 == nreq && rng.chance(1, 4);
            // choose a host value
            let host = match rng.below(6) {
                0 => None,
                1 | 2 if !hosts.is_empty() => {
                    let k = rng.usize_below(hosts.len());
                    let p = hosts[k].pattern.clone();
                    Some(text_for(&mut rng, &p))
                }
                3 => Some("a.example.example.com".to_string()),
                4 => Some(gen_text(&mut rng, "", 2)),
                _ => Some("example.com".to_string()),
            };
            let host = host.filter(|h| !h.is_empty() && !h.contains(' '));
            // choose a path: derived from some route of some app, or free
            let all_routes: Vec<String> = hosts.iter().chain(std::iter::once(&default)).flat_map(|h| if ws { h.ws_routes.clone() } else { h.routes.clone() }).collect();
            let mut from_pattern: Option<String> = None;
            let mut path = if !all_routes.is_empty() && rng.chance(3, 4) {
                let k = rng.usize_below(all_routes.len());
                let p = all_routes[k].clone();
                from_pattern = Some(p.clone());
                text_for(&mut rng, &p)
            } else {
                gen_text(&mut rng, "/", 3)
            };
            if !path.starts_with('/') {
                path = format!("/{}", path);
            }
            // one pattern-derived path in sixteen is long: the first wildcard of the pattern has to take
            // 2049..6000 characters (whether a pattern matches does not depend on how long the text is)
            {
                let mut r6 = Rng::new(humsim::rng::mix(&[rng.next_u64(), 0xC04_0006]));
                if let Some(p) = &from_pattern {
                    if p.contains('*') && r6.chance(1, 16) {
                        let n = [2049usize, 2100, 3000, 6000][r6.usize_below(4)];
                        let filler: String = (0..n).map(|i| ['a', 'b', 'x', '.', '/'][(i * 7 + n) % 5]).collect();
                        let mut first = true;
                        let mut long = String::new();
                        for c in p.chars() {
                            if c == '*' {
                                if first {
                                    long.push_str(&filler);
                                    first = false;
                                }
                            } else {
                                long.push(c);
                            }
                        }
                        path = if long.starts_with('/') { long } else { format!("/{}", long) };
                    }
                }
            }
            // a literal `*` is a legal path character: one path in eight has one somewhere after the
            // leading slash (where a pattern has its wildcard, the wildcard has to take it)
            {
                let mut r5 = Rng::new(humsim::rng::mix(&[rng.next_u64(), 0xC04_0005]));
                if r5.chance(1, 8) {
                    let chars: Vec<char> = path.chars().collect();
                    let at = 1 + r5.usize_below(chars.len());
                    path = chars[..at].iter().chain(std::iter::once(&'*')).chain(chars[at..].iter()).collect();
                }
            }
            reqs.push(Rq { host, path, query: if rng.chance(1, 4) { "q=1&r=*".into() } else { String::new() }, ws });
        }
        clients.push(reqs);
    }
    let mut sim = SimParams::draw(&mut rng, true);
    sim.rx_capacity = None;
    sim.max_decisions = 300_000;
    Scn { sim, hosts, default, clients }
}

/// Totality under shrinking: whatever the shrinker produced becomes a legal scenario.
pub fn normalise(scn: &mut Scn) {
    // totality under shrinking
    for h in scn.hosts.iter_mut() {
        if h.pattern == "*" || h.pattern.is_empty() {
            h.pattern = "*.x".into();
        }
    }
    for c in scn.clients.iter_mut() {
        for r in c.iter_mut() {
            if !r.path.starts_with('/') || r.path.contains(' ') || r.path.contains('?') {
                r.path = format!("/{}", r.path.replace([' ', '?'], ""));
            }
            if let Some(h) = &r.host {
                if h.trim() != h || h.is_empty() {
                    r.host = None;
                }
            }
        }
        // a WebSocket request ends its connection
        if let Some(p) = c.iter().position(|r| r.ws) {
            c.truncate(p + 1);
        }
    }
}

/// Compare what every client got (`outs[client][request]`: Some(answer) or None = no answer)
/// with the reference router.  `completed` = the run ended normally.
pub fn judge(rr: &mut RunResult, scn: &Scn, got_all: &[Vec<Option<String>>], completed: bool) {
    if scn.clients.len() > 1 {
        rr.count("c04.concurrent_connections", 1);
    }
    let mut shape = String::new();
    let mut nontrivial = false;
    for (cid, reqs) in scn.clients.iter().enumerate() {
        let got = got_all.get(cid).cloned().unwrap_or_default();
        for (i, r) in reqs.iter().enumerate() {
            rr.count("c04.requests", 1);
            if r.ws {
                rr.count("c04.ws_requests", 1);
            }
            if r.host.is_none() {
                rr.count("c04.host_absent", 1);
            }
            if i > 0 {
                rr.count("c04.second_or_later_request_on_connection", 1);
            }
            let want = route(&scn, r);
            match &want {
                Some(id) if id.starts_with('h') => rr.count("c04.answered_by_host_app", 1),
                Some(_) => {
                    if r.host.as_ref().map(|hv| scn.hosts.iter().any(|h| glob_match(&h.pattern, hv))).unwrap_or(false) {
                        rr.count("c04.fell_through_to_default", 1);
                    }
                }
                None => rr.count("c04.no_route_404", 1),
            }
            let nmatch: usize = scn.hosts.iter().chain(std::iter::once(&scn.default)).map(|h| if r.ws { &h.ws_routes } else { &h.routes }).map(|rs| rs.iter().filter(|p| glob_match(p, &r.path)).count()).max().unwrap_or(0);
            let hmatch = r.host.as_ref().map(|hv| scn.hosts.iter().filter(|h| glob_match(&h.pattern, hv)).count()).unwrap_or(0);
            if nmatch > 1 || hmatch > 1 {
                rr.count("c04.shadowed_route_requests", 1);
                if !scn.hosts.is_empty() && reqs.len() >= 2 {
                    nontrivial = true;
                }
            }
            let want_text = if r.ws { want.clone().map(|id| format!("WS-HANDLER {}", id)).unwrap_or_default() } else { want.clone().map(|id| format!("200 {}", id)).unwrap_or_else(|| "404 <html><body><h1>404 Not Found</h1></body></html>".to_string()) };
            let g = got.get(i).cloned().flatten();
            shape.push_str(&format!("{}>{:?};", if r.ws { "w" } else { "h" }, g.as_ref().map(|x| x.chars().take(12).collect::<String>())));
            match g {
                None => {
                    if completed {
                        rr.violate("C04/R1", format!("no-answer:{}", if r.ws { "ws" } else { "http" }), format!("client {} request {} (Host {:?}, path {:?}) got no response", cid, i, r.host, r.path));
                    }
                    break;
                }
                Some(g) => {
                    if g != want_text {
                        // classify: is it the matcher (pattern vs text) or the order?
                        let kind = if want.is_some() && (g.starts_with("404") || g.is_empty()) {
                            "matching-route-not-found"
                        } else if want.is_none() {
                            "non-matching-route-answered"
                        } else {
                            "wrong-handler"
                        };
                        rr.violate(
                            "C04/R1",
                            format!("{}:{}:{}", kind, if r.ws { "ws" } else { "http" }, if i == 0 { "first-request" } else { "later-request" }),
                            format!("client {} request {} (Host {:?}, path {:?}, ws {}): answered {:?} but the reference router says {:?}; hosts {:?}, default routes {:?} ws {:?}", cid, i, r.host, r.path, r.ws, g, want_text, scn.hosts.iter().map(|h| format!("{} -> {:?} ws {:?}", h.pattern, h.routes, h.ws_routes)).collect::<Vec<_>>(), scn.default.routes, scn.default.ws_routes),
                        );
                        break;
                    }
                }
            }
        }
    }
    if nontrivial {
        rr.shapes.push(fnv64(format!("{}|{:?}|{:?}", shape, scn.hosts.iter().map(|h| (h.pattern.clone(), h.routes.len())).collect::<Vec<_>>(), scn.default.routes).as_bytes()));
    }
    rr.sample = Some(json!({"hosts": scn.hosts.iter().map(|h| json!({"pattern": h.pattern, "routes": h.routes, "ws": h.ws_routes})).collect::<Vec<_>>(), "default_routes": scn.default.routes, "clients": scn.clients.iter().enumerate().map(|(cid, c)| json!({"requests": c.iter().map(|r| format!("Host={:?} {}{}", r.host, r.path, if r.ws { " (upgrade)" } else { "" })).collect::<Vec<_>>(), "answers": got_all.get(cid).cloned().unwrap_or_default()})).collect::<Vec<_>>()}));
}

#[cfg(not(feature = "tk"))]
impl Prop for C04 {
    fn id(&self) -> &'static str {
        "C04"
    }
    fn level(&self) -> &'static str {
        "exploration"
    }
    fn runs(&self, tier: Tier) -> u64 {
        match tier {
            Tier::Quick => 60_000,
            Tier::Thorough => 3_000_000,
        }
    }
    fn rule(&self) -> &'static str {
        "One case = a generated application (0..4 host sub-apps with patterns over literals / prefixes / suffixes / infixes / multiple and adjacent `*` / self-overlapping literals / 2- and 4-byte characters / mixed-case names spelled by the client exactly as registered, 0..6 HTTP routes and 0..3 WebSocket routes each, plus the default app) and 1..4 concurrent client connections of 1..6 keep-alive requests with Host absent / exact / wildcard-matching / with port / non-matching and paths matching several, one or no routes (one in eight containing a literal `*`, one pattern-derived path in sixteen 2049..6000 characters long), with and without query; WebSocket upgrade requests end a connection. Every handler answers with its identity; the oracle is a reference router over an independent DP glob matcher. This check is dominated by seeded configuration/input generation; the simulator contributes the connection history, concurrency and runtime dimension. Distinct = distinct (app shape, request sequence, identities answered); non-trivial = at least one host sub-app, two requests, and a request whose path matches more than one route or whose host matches more than one sub-app."
    }
    fn assumptions(&self) -> Vec<String> {
        vec![
            "request targets start with '/' and contain no space or '?' in the path (origin-form)".into(),
            "this phase is the threaded runtime; the tokio runtime is exercised by the twin phase C04T of the same check".into(),
            "the reference router implements the statement literally: first host whose pattern matches, first matching route in it, else the default app's first matching route, else 404 / close without upgrade".into(),
        ]
    }
    fn expected_counters(&self) -> Vec<&'static str> {
        vec!["c04.requests", "c04.ws_requests", "c04.answered_by_host_app", "c04.fell_through_to_default", "c04.no_route_404", "c04.shadowed_route_requests", "c04.host_absent", "c04.second_or_later_request_on_connection", "c04.concurrent_connections"]
    }
    fn real_vs_stub(&self) -> (Vec<&'static str>, Vec<&'static str>) {
        (vec!["App::run, client_handler, get_handler, call_websocket_handler, SubApp, Route::route_matches, krauss::wildcard_match"], vec!["TCP, threads (humsim)", "clients are harness reference implementations"])
    }

    fn generate(&self, seed: u64, idx: u64, tier: Tier) -> Value {
        serde_json::to_value(gen_scn(run_seed(seed, "C04", idx), tier)).unwrap()
    }

    fn execute(&self, scenario: &Value) -> RunResult {
        let mut rr = RunResult { evals: 1, ..Default::default() };
        let mut scn: Scn = match serde_json::from_value(scenario.clone()) {
            Ok(s) => s,
            Err(e) => {
                rr.harness_error = Some(format!("bad scenario: {}", e));
                return rr;
            }
        };
        normalise(&mut scn);
        let addr: SocketAddr = "127.0.0.1:8084".parse().unwrap();
        let outs: Vec<Arc<Mutex<Vec<Option<String>>>>> = scn.clients.iter().map(|_| Arc::new(Mutex::new(Vec::new()))).collect();
        let (scn2, outs2) = (scn.clone(), outs.clone());
        let outcome = sim::run(scn.sim.to_config(), move || {
            let scn = scn2;
            let mut app: App<()> = App::new_with_config(scn.clients.len().clamp(1, 8), ()).with_default_subapp(sub_app("d".into(), &scn.default));
            for (hi, h) in scn.hosts.iter().enumerate() {
                app = app.with_host(&h.pattern, sub_app(format!("h{}", hi), h));
            }
            humsim::thread::spawn(move || {
                let _ = app.run(addr);
            });
            let mut hs = Vec::new();
            for (cid, reqs) in scn.clients.iter().enumerate() {
                let (reqs, out) = (reqs.clone(), outs2[cid].clone());
                hs.push(humsim::thread::spawn(move || {
                    let mut s = match connect_retry(None, addr, 200) {
                        Ok(s) => s,
                        Err(_) => return,
                    };
                    let mut log = RecvLog::new();
                    for (i, r) in reqs.iter().enumerate() {
                        let target = if r.query.is_empty() { r.path.clone() } else { format!("{}?{}", r.path, r.query) };
                        let mut headers = Vec::new();
                        if let Some(h) = &r.host {
                            headers.push(("Host".to_string(), h.clone()));
                        }
                        headers.push(("Connection".into(), "keep-alive".into()));
                        if r.ws {
                            headers.push(("Upgrade".into(), "websocket".into()));
                        }
                        let bytes = ReqModel { method: "GET".into(), target, version: "HTTP/1.1".into(), headers, body: None }.render();
                        if !write_all(&mut s, &bytes) {
                            break;
                        }
                        if r.ws {
                            let before = log.bytes.len();
                            read_to_end(&mut s, &mut log, Duration::from_secs(10));
                            // (the tolerated CRLF of the previous response may arrive only now)
                            let mut raw = &log.bytes[before..];
                            if i > 0 && raw.starts_with(b"\r\n") {
                                raw = &raw[2..];
                            } else if i > 0 && raw.starts_with(b"\n") && log.bytes[..before].ends_with(b"\r") {
                                raw = &raw[1..];
                            }
                            let got = String::from_utf8_lossy(raw).to_string();
                            out.lock().unwrap().push(Some(got));
                            break;
                        }
                        let rs = read_responses(&mut s, &mut log, i + 1, Duration::from_secs(20));
                        match rs.get(i) {
                            Some(resp) => out.lock().unwrap().push(Some(format!("{} {}", resp.status, String::from_utf8_lossy(body_without_tolerated_crlf(resp))))),
                            None => {
                                out.lock().unwrap().push(None);
                                break;
                            }
                        }
                    }
                }));
            }
            for h in hs {
                let _ = h.join();
            }
        });
        rr.absorb(&outcome);
        if outcome.status != sim::EndStatus::Completed {
            rr.violate("C04/R0", format!("run-did-not-complete:{:?}", outcome.status), format!("{:?}", outcome.threads.iter().filter(|t| t.state != "finished").map(|t| format!("{}:{}", t.name, t.op)).collect::<Vec<_>>()));
        }
        let got_all: Vec<Vec<Option<String>>> = outs.iter().map(|o| o.lock().unwrap().clone()).collect();
        judge(&mut rr, &scn, &got_all, outcome.status == sim::EndStatus::Completed);
        rr
    }
}
