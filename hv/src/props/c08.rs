//! C08 — thread pool: tasks run exactly once, panics are isolated, shutdown terminates.
//!
//! The real `humphrey::thread::pool::ThreadPool` (workers, recovery thread, PanicMarker)
//! runs under the humsim scheduler; panics are real panics.

use crate::common::*;
use humphrey::monitor::event::EventType;
use humphrey::monitor::MonitorConfig;
use humphrey::thread::pool::ThreadPool;
use humsim::rng::Rng;
use humsim::sim;
use serde::{Deserialize, Serialize};
use serde_json::{json, Value};
use std::sync::atomic::{AtomicI64, AtomicU64, Ordering};
use std::sync::{Arc, Mutex};
use std::time::Duration;

pub struct C08;

#[derive(Serialize, Deserialize, Clone, Debug)]
pub struct Task {
    /// "plain" | "panic" | "sleep" | "barrier"
    pub kind: String,
    /// sleep tasks: virtual milliseconds
    #[serde(default)]
    pub ms: u64,
    /// virtual microseconds the submitter waits before submitting this task
    #[serde(default)]
    pub gap_us: u64,
}

#[derive(Serialize, Deserialize, Clone, Debug)]
pub struct Scn {
    pub sim: SimParams,
    pub workers: usize,
    pub start: bool,
    pub tasks: Vec<Task>,
    /// wait for the submitted tasks before the final barrier batch / shutdown
    pub wait_all: bool,
    /// submit a batch of `workers` barrier tasks after the tasks (R2/R3)
    pub final_batch: bool,
    /// how many times stop() is called before drop (0 = drop alone)
    pub stops: u8,
    /// register a monitor subscribed to panic + overload events
    pub monitor: bool,
}

#[derive(Clone, Debug)]
struct Ev {
    task: usize,
    what: &'static str,
    thread: String,
    seq: u64,
}

struct Shared {
    events: Mutex<Vec<Ev>>,
    inside: AtomicI64,
    max_inside: AtomicI64,
    runs: Vec<AtomicU64>,
    done: Vec<AtomicU64>,
    barrier_arrived: Vec<AtomicU64>,
    barrier_failed: AtomicU64,
    driver_log: Mutex<Vec<String>>,
}

struct Inside<'a>(&'a Shared);
impl Drop for Inside<'_> {
    fn drop(&mut self) {
        self.0.inside.fetch_sub(1, Ordering::SeqCst);
    }
}

fn log(sh: &Shared, task: usize, what: &'static str) {
    let thread = std::thread::current().name().unwrap_or("?").to_string();
    let seq = sim::decision_index();
    sh.events.lock().unwrap().push(Ev { task, what, thread, seq });
}

fn make_task(sh: Arc<Shared>, id: usize, kind: String, ms: u64, group: usize, group_size: u64) -> impl FnOnce() + Send + 'static {
    move || {
        sh.runs[id].fetch_add(1, Ordering::SeqCst);
        let n = sh.inside.fetch_add(1, Ordering::SeqCst) + 1;
        sh.max_inside.fetch_max(n, Ordering::SeqCst);
        let _g = Inside(&sh);
        log(&sh, id, "start");
        match kind.as_str() {
            "panic" => {
                log(&sh, id, "panic");
                sh.done[id].fetch_add(1, Ordering::SeqCst);
                // what the task panics with: a formatted message (String), a literal (&'static str),
                // or a payload that is not a string at all
                match ms {
                    1 => panic!("task panics on purpose"),
                    2 => std::panic::panic_any(503u16),
                    3 => std::panic::resume_unwind(Box::new(std::io::Error::new(std::io::ErrorKind::Other, "typed failure"))),
                    _ => panic!("task {} panics on purpose", id),
                }
            }
            "sleep" => humsim::thread::sleep(Duration::from_millis(ms)),
            "barrier" => {
                sh.barrier_arrived[group].fetch_add(1, Ordering::SeqCst);
                let mut waited = 0u64;
                while sh.barrier_arrived[group].load(Ordering::SeqCst) < group_size {
                    humsim::thread::sleep(Duration::from_millis(5));
                    waited += 5;
                    if waited > 20_000 {
                        sh.barrier_failed.fetch_add(1, Ordering::SeqCst);
                        log(&sh, id, "barrier-timeout");
                        break;
                    }
                }
            }
            _ => {}
        }
        log(&sh, id, "finish");
        sh.done[id].fetch_add(1, Ordering::SeqCst);
    }
}

impl Prop for C08 {
    fn id(&self) -> &'static str {
        "C08"
    }
    fn level(&self) -> &'static str {
        "exploration"
    }
    fn runs(&self, tier: Tier) -> u64 {
        match tier {
            Tier::Quick => 12_000,
            Tier::Thorough => 8_000_000,
        }
    }
    fn rule(&self) -> &'static str {
        "One case = one lifecycle script {start?, tasks (plain/panic with a formatted message, a literal, a non-string payload via panic_any or a typed error via resume_unwind/sleep/barrier with submit gaps), a monitor registered or not, wait?, final barrier batch?, stop x0..2, drop} for 1..4 workers, run under one seeded schedule (random / sticky / PCT / round-robin) of submitter, workers and recovery thread. Distinct = distinct history shape: the sequence of (task, event, executing worker name) in global decision order plus the lifecycle. Non-trivial = at least two workers and two tasks, or at least one panicking task, or a shutdown with tasks still queued."
    }
    fn assumptions(&self) -> Vec<String> {
        vec![
            "std::thread / std::sync::{Mutex,mpsc} blocking behaviour is replaced by the humsim baton scheduler (real OS threads, one runs at a time); data protection, poisoning, unwinding and thread::panicking() are std's".into(),
            "the recovery thread never exits by construction and is reported separately: the statement speaks of worker threads".into(),
            "a barrier batch that does not complete within 20 virtual seconds is taken as 'fewer than N usable workers'".into(),
        ]
    }
    fn expected_counters(&self) -> Vec<&'static str> {
        vec!["c08.panic_tasks", "c08.panic_with_non_string_payload", "c08.restarted_worker_ran_task", "c08.drop_without_stop", "c08.stop_twice", "c08.queued_at_shutdown", "c08.final_batch_after_panic"]
    }
    fn real_vs_stub(&self) -> (Vec<&'static str>, Vec<&'static str>) {
        (
            vec!["humphrey::thread::pool::{ThreadPool, Thread}", "humphrey::thread::recovery::{RecoveryThread, PanicMarker}", "humphrey::monitor::MonitorConfig", "real panics and unwinding"],
            vec!["thread scheduling, Mutex/mpsc blocking, Instant (humsim)"],
        )
    }

    fn generate(&self, seed: u64, idx: u64, tier: Tier) -> Value {
        let mut rng = Rng::new(run_seed(seed, "C08", idx));
        let workers = rng.range(1, 4) as usize;
        let max_tasks = if tier == Tier::Quick { 8 } else { 16 };
        let ntasks = match rng.below(10) {
            0 => 0,
            1..=6 => rng.range(1, 5),
            _ => rng.range(1, max_tasks),
        } as usize;
        let panic_bias = rng.below(4); // 0: no panics .. 3: many
        let mut tasks = Vec::new();
        for _ in 0..ntasks {
            let r = rng.below(12);
            let kind = if r < panic_bias * 2 {
                "panic"
            } else if r < 8 {
                "plain"
            } else if r < 10 {
                "sleep"
            } else {
                "barrier"
            };
            tasks.push(Task {
                kind: kind.into(),
                ms: if kind == "sleep" { [0u64, 1, 50, 150, 1000][rng.usize_below(5)] } else if kind == "panic" { [0u64, 0, 1, 2, 3][rng.usize_below(5)] } else { 0 },
                gap_us: if rng.chance(1, 3) { [1u64, 100, 10_000, 200_000][rng.usize_below(4)] } else { 0 },
            });
        }
        let start = !rng.chance(1, 25);
        let mut sim = SimParams::draw(&mut rng, false);
        sim.max_decisions = 60_000;
        let scn = Scn {
            sim,
            workers,
            start,
            tasks: if start { tasks } else { vec![] },
            wait_all: rng.chance(1, 2),
            final_batch: rng.chance(1, 2),
            stops: match rng.below(10) {
                0..=1 => 0,
                2..=8 => 1,
                _ => 2,
            },
            monitor: rng.chance(1, 4),
        };
        serde_json::to_value(scn).unwrap()
    }

    fn execute(&self, scenario: &Value) -> RunResult {
        let mut rr = RunResult { evals: 1, ..Default::default() };
        let scn: Scn = match serde_json::from_value(scenario.clone()) {
            Ok(s) => s,
            Err(e) => {
                rr.harness_error = Some(format!("bad scenario: {}", e));
                return rr;
            }
        };
        let workers = scn.workers.clamp(1, 8);
        rr.count("c08.runs", 1);
        // barrier groups: consecutive barrier tasks form groups of size <= workers
        let mut groups: Vec<u64> = Vec::new();
        let mut task_group: Vec<usize> = vec![0; scn.tasks.len()];
        {
            let mut cur = 0u64;
            for (i, t) in scn.tasks.iter().enumerate() {
                if t.kind == "barrier" {
                    if cur == 0 || cur as usize >= workers {
                        groups.push(0);
                        cur = 0;
                    }
                    cur += 1;
                    let g = groups.len() - 1;
                    groups[g] = cur;
                    task_group[i] = g;
                } else {
                    cur = 0;
                }
            }
        }
        let n_script = scn.tasks.len();
        let n_final = if scn.final_batch && scn.start { workers } else { 0 };
        let final_group = groups.len();
        groups.push(n_final as u64);
        let total = n_script + n_final;
        let sh = Arc::new(Shared {
            events: Mutex::new(Vec::new()),
            inside: AtomicI64::new(0),
            max_inside: AtomicI64::new(0),
            runs: (0..total).map(|_| AtomicU64::new(0)).collect(),
            done: (0..total).map(|_| AtomicU64::new(0)).collect(),
            barrier_arrived: (0..groups.len()).map(|_| AtomicU64::new(0)).collect(),
            barrier_failed: AtomicU64::new(0),
            driver_log: Mutex::new(Vec::new()),
        });
        let sh2 = sh.clone();
        let scn2 = scn.clone();
        let groups2 = groups.clone();
        let submitted = Arc::new(AtomicU64::new(0));
        let submitted2 = submitted.clone();
        let outcome = sim::run(scn.sim.to_config(), move || {
            let sh = sh2;
            let scn = scn2;
            let dl = |s: &str| sh.driver_log.lock().unwrap().push(format!("{}@{}", s, sim::decision_index()));
            let mut pool = ThreadPool::new(workers);
            let mut _mon_rx = None;
            if scn.monitor {
                let (tx, rx) = humsim::sync::mpsc::channel();
                pool.register_monitor(
                    MonitorConfig::new(tx)
                        .with_subscription_to(EventType::ThreadPoolPanic)
                        .with_subscription_to(EventType::ThreadPoolOverload)
                        .with_subscription_to(EventType::ThreadRestarted),
                );
                _mon_rx = Some(rx);
            }
            if scn.start {
                pool.start();
                dl("started");
                for (i, t) in scn.tasks.iter().enumerate() {
                    if t.gap_us > 0 {
                        humsim::thread::sleep(Duration::from_micros(t.gap_us));
                    }
                    let g = task_group[i];
                    pool.execute(make_task(sh.clone(), i, t.kind.clone(), t.ms, g, groups2[g]));
                    submitted2.fetch_add(1, Ordering::SeqCst);
                }
                dl("submitted");
                let wait_done = |upto: usize, budget_ms: u64| -> bool {
                    let mut waited = 0;
                    loop {
                        if (0..upto).all(|i| sh.done[i].load(Ordering::SeqCst) >= 1) {
                            return true;
                        }
                        if waited >= budget_ms {
                            return false;
                        }
                        humsim::thread::sleep(Duration::from_millis(10));
                        waited += 10;
                    }
                };
                if scn.wait_all {
                    let ok = wait_done(n_script, 60_000);
                    dl(if ok { "all-done" } else { "wait-all-timeout" });
                }
                if n_final > 0 {
                    for k in 0..n_final {
                        pool.execute(make_task(sh.clone(), n_script + k, "barrier".into(), 0, final_group, n_final as u64));
                        submitted2.fetch_add(1, Ordering::SeqCst);
                    }
                    dl("final-batch-submitted");
                    if scn.wait_all {
                        let ok = wait_done(total, 60_000);
                        dl(if ok { "final-batch-done" } else { "final-batch-timeout" });
                    }
                }
                for _ in 0..scn.stops {
                    pool.stop();
                    dl("stopped");
                }
            }
            drop(pool);
            dl("dropped");
            // settle: until nothing can happen any more (every thread blocked or finished, no
            // timers), bounded in virtual time; then look at which worker threads are still alive
            let quiet = sim::wait_quiescent(300_000_000_000);
            let snap = sim::threads_snapshot();
            let live = snap.iter().filter(|t| t.name.parse::<usize>().is_ok() && t.state != "finished").count();
            if !quiet {
                dl("not-quiescent");
            }
            if live == 0 {
                dl("workers-exited");
            } else {
                dl("workers-still-alive");
            }
        });
        rr.absorb(&outcome);

        // ---- oracle -----------------------------------------------------------
        let dlog = sh.driver_log.lock().unwrap().clone();
        let has = |k: &str| dlog.iter().any(|l| l.starts_with(k));
        let events = sh.events.lock().unwrap().clone();
        let n_sub = submitted.load(Ordering::SeqCst) as usize;
        let npanic = scn.tasks.iter().filter(|t| t.kind == "panic").count();
        rr.count("c08.panic_tasks", npanic as u64);
        rr.count("c08.panic_with_non_string_payload", scn.tasks.iter().filter(|t| t.kind == "panic" && t.ms >= 2).count() as u64);
        if scn.start && scn.stops == 0 {
            rr.count("c08.drop_without_stop", 1);
        }
        if scn.stops >= 2 {
            rr.count("c08.stop_twice", 1);
        }
        if scn.start && !scn.wait_all && n_sub > 0 {
            rr.count("c08.queued_at_shutdown", 1);
        }
        if n_final > 0 && npanic > 0 {
            rr.count("c08.final_batch_after_panic", 1);
        }
        // a worker name that appears in a "start" after a panic on the same name = restarted worker ran a task
        {
            let mut panicked: std::collections::BTreeSet<String> = Default::default();
            for e in &events {
                if e.what == "start" && panicked.contains(&e.thread) {
                    rr.count("c08.restarted_worker_ran_task", 1);
                    break;
                }
                if e.what == "panic" {
                    panicked.insert(e.thread.clone());
                }
            }
        }
        match outcome.status {
            sim::EndStatus::Completed => {}
            sim::EndStatus::Stuck => {
                let where_ = if has("dropped") { "after-drop" } else if has("stopped") { "in-drop-after-stop" } else if scn.start { "in-drop-without-stop" } else { "in-drop-unstarted" };
                let blocked: Vec<String> = outcome.threads.iter().filter(|t| t.state == "blocked").map(|t| format!("{}:{}", t.name, t.op)).collect();
                rr.violate("C08/R4", format!("caller-blocked-forever:{}", where_), format!("no runnable thread and no timer: the caller is blocked forever {}; blocked threads: {:?}; driver log {:?}", where_, blocked, dlog));
            }
            sim::EndStatus::StepCap => {
                rr.violate("C08/R4", "step-cap", format!("decision cap reached (live-lock?); driver log {:?}", dlog));
            }
            sim::EndStatus::DriverPanicked => {
                let p: Vec<String> = outcome.panics.iter().filter(|p| p.thread == "driver").map(|p| format!("{} at {}", p.message, p.location)).collect();
                rr.violate("C08/R4", "driver-panicked", format!("pool API panicked in the caller: {:?}; driver log {:?}", p, dlog));
            }
        }
        // R1 never twice (always checkable)
        for i in 0..total {
            let r = sh.runs[i].load(Ordering::SeqCst);
            if r > 1 {
                rr.violate("C08/R1", "task-ran-twice", format!("task {} ran {} times", i, r));
            }
        }
        // R2 concurrency bound
        let mx = sh.max_inside.load(Ordering::SeqCst);
        if mx > workers as i64 {
            rr.violate("C08/R2", "more-than-N-concurrent", format!("{} tasks inside a body at once on a {}-thread pool", mx, workers));
        }
        let completed = outcome.status == sim::EndStatus::Completed;
        if completed && scn.start {
            // R1/R3/R4: everything submitted ran exactly once by the end
            for i in 0..n_sub.min(total) {
                let r = sh.runs[i].load(Ordering::SeqCst);
                let d = sh.done[i].load(Ordering::SeqCst);
                if r == 0 {
                    let kind = if i < n_script { scn.tasks[i].kind.as_str() } else { "final-barrier" };
                    let rule = if npanic > 0 { "C08/R3" } else { "C08/R1" };
                    rr.violate(rule, format!("task-never-ran:{}", if npanic > 0 { "with-panics" } else { "no-panics" }), format!("task {} ({}) was submitted to a started pool and never ran (stops={}, wait_all={}); driver log {:?}", i, kind, scn.stops, scn.wait_all, dlog));
                } else if d == 0 {
                    rr.violate("C08/R4", "queued-task-not-finished", format!("task {} started but had not finished when all workers had exited / the settle budget ended; driver log {:?}", i, dlog));
                }
            }
            let bf = sh.barrier_failed.load(Ordering::SeqCst);
            if bf > 0 {
                // which group failed?
                let final_failed = n_final > 0 && events.iter().any(|e| e.what == "barrier-timeout" && e.task >= n_script);
                if final_failed || scn.wait_all {
                    let rule = if npanic > 0 { "C08/R3" } else { "C08/R2" };
                    rr.violate(rule, format!("barrier-of-N-did-not-complete:{}", if npanic > 0 { "after-panics" } else { "no-panics" }), format!("{} barrier task(s) timed out: fewer than {} workers were usable at once; driver log {:?}", bf, workers, dlog));
                }
            }
            if has("wait-all-timeout") || has("final-batch-timeout") {
                rr.violate(if npanic > 0 { "C08/R3" } else { "C08/R1" }, "tasks-not-done-within-budget", format!("submitted tasks were not all done within 60 virtual seconds; driver log {:?}", dlog));
            }
            if has("workers-still-alive") && bf == 0 {
                let live: Vec<String> = outcome.threads.iter().filter(|t| t.name.parse::<usize>().is_ok() && t.state != "finished").map(|t| format!("{}:{}:{}", t.name, t.state, t.op)).collect();
                rr.violate("C08/R4", format!("worker-threads-alive-after-drop:stops={}", scn.stops.min(1)), format!("worker threads still alive after the pool was dropped and the system became quiescent (or 300 virtual seconds passed): {:?}", live));
            }
        }
        // shape + sample
        let mut shape = String::new();
        for e in &events {
            shape.push_str(&format!("{}{}{};", e.task, &e.what[..2], e.thread));
        }
        shape.push_str(&format!("|w{}s{}st{}", workers, scn.stops, scn.start));
        for l in &dlog {
            shape.push_str(l.split('@').next().unwrap_or(""));
        }
        let nontrivial = (workers >= 2 && n_sub >= 2) || npanic > 0 || (!scn.wait_all && n_sub > 0);
        if nontrivial {
            rr.shapes.push(fnv64(shape.as_bytes()));
        }
        rr.sample = Some(json!({
            "workers": workers, "strategy": scn.sim.strategy, "stops": scn.stops,
            "tasks": scn.tasks.iter().map(|t| t.kind.clone()).collect::<Vec<_>>(),
            "history": events.iter().map(|e| format!("#{} task{} {} on worker '{}'", e.seq, e.task, e.what, e.thread)).collect::<Vec<_>>(),
            "driver": dlog,
            "end": format!("{:?}", outcome.status),
        }));
        rr
    }
}
