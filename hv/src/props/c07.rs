//! C07 — responses serialise to valid HTTP and parse back; the client returns what was sent.
//!
//! (a) responses built through the public API are serialised, checked by the strict
//! reference grammar, and fed back through `Response::from_stream` over a scripted reader
//! (read plans as the schedule); (b) the real `Client` runs inside the simulator against
//! scripted reference servers listening on port 80 of simulated addresses (the client
//! hard-codes :80 — only a simulated network can offer that), Content-Length and chunked
//! bodies under ALL compositions into chunks for bodies <= 6 bytes x stream segmentations;
//! (c) redirect chains across several simulated hosts.

use crate::common::*;
use crate::refs::http::*;
use crate::scripted::{Plan, ScriptedReader};
use crate::simhttp::*;
use humphrey::http::cookie::{SameSite, SetCookie};
use humphrey::http::{Response, StatusCode};
use humphrey::Client;
use humsim::net::{SocketAddr, TcpListener};
use humsim::rng::Rng;
use humsim::sim;
use serde::{Deserialize, Serialize};
use serde_json::{json, Value};
use std::convert::TryFrom;
use std::sync::{Arc, Mutex};
use std::time::Duration;

pub struct C07;

#[derive(Serialize, Deserialize, Clone, Debug, Default)]
pub struct CookieSpec {
    pub name: String,
    pub value: String,
    /// bit set over {expires, max_age, domain, path, secure, http_only, same_site}
    pub attrs: u32,
    pub same_site: u8,
}

#[derive(Serialize, Deserialize, Clone, Debug)]
pub struct Hop {
    /// host index (10.2.0.<host+1>:80)
    pub host: usize,
    pub path: String,
    pub resp: RespModel,
    /// Location is absolute (http://ip/path) or relative (/path)
    pub absolute: bool,
}

#[derive(Serialize, Deserialize, Clone, Debug)]
pub struct Scn {
    pub sim: SimParams,
    /// "ser" | "client" | "redirect"
    pub part: String,
    pub resp: RespModel,
    #[serde(default)]
    pub cookies: Vec<CookieSpec>,
    /// client: "GET" "POST" "PUT" "DELETE"
    #[serde(default)]
    pub method: String,
    #[serde(default)]
    pub seg: String,
    #[serde(default)]
    pub keep_open: bool,
    /// redirect: the chain (last hop is the final non-redirect response)
    #[serde(default)]
    pub chain: Vec<Hop>,
    #[serde(default)]
    pub follow: bool,
    /// cookies the caller attaches to the client's request (name, value)
    #[serde(default)]
    pub client_cookies: Vec<(String, String)>,
    #[serde(default)]
    pub plan_seed: u64,
}

fn cookie_of(c: &CookieSpec) -> (SetCookie, Vec<String>) {
    let mut sc = SetCookie::new(&c.name, &c.value);
    let mut attrs = vec![format!("{}={}", c.name, c.value)];
    if c.attrs & 1 != 0 {
        sc = sc.with_expires("Wed, 21 Oct 2026 07:28:00 GMT");
        attrs.push("Expires=Wed, 21 Oct 2026 07:28:00 GMT".into());
    }
    if c.attrs & 2 != 0 {
        sc = sc.with_max_age(Duration::from_secs(3600));
        attrs.push("Max-Age=3600".into());
    }
    if c.attrs & 4 != 0 {
        sc = sc.with_domain("example.com");
        attrs.push("Domain=example.com".into());
    }
    if c.attrs & 8 != 0 {
        sc = sc.with_path("/a/b");
        attrs.push("Path=/a/b".into());
    }
    if c.attrs & 16 != 0 {
        sc = sc.with_secure(true);
        attrs.push("Secure".into());
    }
    if c.attrs & 32 != 0 {
        sc = sc.with_http_only(true);
        attrs.push("HttpOnly".into());
    }
    if c.attrs & 64 != 0 {
        let (v, n) = match c.same_site % 3 {
            0 => (SameSite::Strict, "Strict"),
            1 => (SameSite::Lax, "Lax"),
            _ => (SameSite::None, "None"),
        };
        sc = sc.with_same_site(v);
        attrs.push(format!("SameSite={}", n));
    }
    (sc, attrs)
}

fn host_addr(i: usize) -> SocketAddr {
    format!("10.2.0.{}:80", (i % 4) + 1).parse().unwrap()
}

/// A scripted conforming server: answers each request by path from its table.
/// `gated` paths belong to the same session as the first request (`/p0`): a conforming server
/// that keys its answer on the session cookie answers 403 when a follow-up request on the same
/// host does not carry the cookie pairs the first request carried.
fn serve(l: TcpListener, table: Vec<(String, RespModel)>, seg: String, keep_open: bool, log: Arc<Mutex<Vec<String>>>, gated: Vec<String>, session: Arc<Mutex<Option<Vec<String>>>>) {
    loop {
        let (mut s, _) = match l.accept() {
            Ok(x) => x,
            Err(_) => return,
        };
        if !seg.is_empty() {
            s.sim_set_seg(parse_seg(&seg));
        }
        let table = table.clone();
        let log = log.clone();
        let (gated, session) = (gated.clone(), session.clone());
        humsim::thread::spawn(move || {
            // read the request head (+ Content-Length body)
            use std::io::Read;
            let mut buf = Vec::new();
            let mut tmp = [0u8; 2048];
            let _ = s.set_read_timeout(Some(Duration::from_secs(5)));
            loop {
                if let Some(p) = buf.windows(4).position(|w| w == b"\r\n\r\n") {
                    let head = String::from_utf8_lossy(&buf[..p]).to_ascii_lowercase();
                    let cl = head.lines().find_map(|l| l.strip_prefix("content-length:").map(|v| v.trim().parse::<usize>().unwrap_or(0))).unwrap_or(0);
                    if buf.len() >= p + 4 + cl {
                        break;
                    }
                }
                match s.read(&mut tmp) {
                    Ok(0) => break,
                    Ok(n) => buf.extend_from_slice(&tmp[..n]),
                    Err(e) if e.kind() == std::io::ErrorKind::Interrupted => continue,
                    Err(_) => break,
                }
            }
            let line = String::from_utf8_lossy(&buf).lines().next().unwrap_or("").to_string();
            log.lock().unwrap().push(line.clone());
            let target = line.split(' ').nth(1).unwrap_or("/").to_string();
            let path = target.split('?').next().unwrap_or("/").to_string();
            let head_end = buf.windows(4).position(|w| w == b"\r\n\r\n").unwrap_or(buf.len());
            let mut pairs: Vec<String> = Vec::new();
            for l in String::from_utf8_lossy(&buf[..head_end]).lines().skip(1) {
                if let Some((n, v)) = l.split_once(':') {
                    if n.trim().eq_ignore_ascii_case("cookie") {
                        pairs.extend(v.split(';').map(|p| p.trim().to_string()).filter(|p| !p.is_empty()));
                    }
                }
            }
            if path == "/p0" {
                *session.lock().unwrap() = Some(pairs.clone());
            }
            let no_session = gated.contains(&path) && session.lock().unwrap().as_ref().map(|first| first.iter().any(|p| !pairs.contains(p))).unwrap_or(false);
            if no_session {
                log.lock().unwrap().push(format!("  (answered 403: the request carried cookies {:?}, the first request of the chain {:?})", pairs, session.lock().unwrap()));
            }
            let resp = if no_session {
                Some(RespModel { version: "HTTP/1.1".into(), status: 403, headers: vec![("X-No-Session".into(), "1".into())], body: b"no session".to_vec(), framing: "cl".into(), chunks: vec![], hex_upper: false, name_style: 0, sep_style: 0, wire_style: 0 })
            } else {
                None
            };
            let resp = resp.or_else(|| table.iter().find(|(p, _)| *p == path).map(|(_, r)| r.clone())).unwrap_or(RespModel { version: "HTTP/1.1".into(), status: 404, headers: vec![("X-Not-In-Table".into(), "1".into())], body: b"nf".to_vec(), framing: "cl".into(), chunks: vec![], hex_upper: false, name_style: 0, sep_style: 0, wire_style: 0 });
            let wire = resp.render();
            write_all(&mut s, &wire);
            let self_delim = no_body_status(resp.status) || resp.effective_framing() == "cl" || resp.effective_framing() == "chunked";
            if keep_open && self_delim {
                // a keep-alive server: waits for the client to close
                let mut l2 = RecvLog::new();
                read_to_end(&mut s, &mut l2, Duration::from_secs(30));
            }
        });
    }
}

fn headers_of(r: &Response) -> Vec<(String, String)> {
    let mut h: Vec<(String, String)> = r.headers.iter().map(|h| (h.name.to_string().to_ascii_lowercase(), h.value.clone())).collect();
    h.sort();
    h
}

impl C07 {
    fn run_ser(&self, scn: &Scn, rr: &mut RunResult) {
        let m = &scn.resp;
        let status = match StatusCode::try_from(m.status) {
            Ok(s) => s,
            Err(_) => return,
        };
        let mut rng = Rng::new(scn.plan_seed);
        let with_cl = m.framing != "none" && m.framing != "close";
        let build = || {
            let mut r = if m.body.is_empty() { Response::empty(status) } else { Response::new(status, &m.body) };
            r.version = m.version.clone();
            let mut want: Vec<(String, String)> = Vec::new();
            let mut cookie_attrs: Vec<Vec<String>> = Vec::new();
            let mut ci = 0;
            for (i, (k, v)) in m.headers.iter().enumerate() {
                if k.eq_ignore_ascii_case("set-cookie") {
                    continue;
                }
                r = r.with_header(k.as_str(), v);
                want.push((k.to_ascii_lowercase(), v.clone()));
                // interleave cookies with headers
                if i % 2 == 1 && ci < scn.cookies.len() {
                    let (sc, attrs) = cookie_of(&scn.cookies[ci]);
                    r = r.with_cookie(sc);
                    cookie_attrs.push(attrs);
                    ci += 1;
                }
            }
            while ci < scn.cookies.len() {
                let (sc, attrs) = cookie_of(&scn.cookies[ci]);
                r = r.with_cookie(sc);
                cookie_attrs.push(attrs);
                ci += 1;
            }
            if with_cl {
                r = r.with_header("Content-Length", m.body.len().to_string());
                want.push(("content-length".into(), m.body.len().to_string()));
            }
            (r, want, cookie_attrs)
        };
        let (resp, want_headers, cookie_attrs) = build();
        rr.evals += 1;
        let bytes = match std::panic::catch_unwind(std::panic::AssertUnwindSafe(|| Vec::<u8>::from(resp))) {
            Ok(b) => b,
            Err(_) => {
                rr.violate("C07/R1", "serialiser-panicked", format!("status {}", m.status));
                return;
            }
        };
        rr.count("c07.serialised", 1);
        if !scn.cookies.is_empty() {
            rr.count("c07.with_set_cookie", 1);
        }
        // (1) strict grammar
        match parse_one(&bytes, 0, true) {
            Err((at, why)) => {
                rr.violate("C07/R1", "serialisation-not-valid-http", format!("at byte {}: {}; bytes {}", at, why, show_bytes(&bytes)));
                return;
            }
            Ok(None) => {
                rr.violate("C07/R1", "serialisation-incomplete", show_bytes(&bytes));
                return;
            }
            Ok(Some(v)) => {
                if v.version != m.version || v.status != m.status {
                    rr.violate("C07/R1", "status-line-differs", format!("{} {} vs {} {}", v.version, v.status, m.version, m.status));
                }
                if !reason_ok(v.status, &v.reason) {
                    rr.violate("C07/R1", format!("reason-phrase-not-registered:{}", v.status), format!("status {} serialised with reason {:?}", v.status, v.reason));
                }
                // one line per header, same-name order preserved; Set-Cookie with its attributes
                let got_plain: Vec<(String, String)> = v.headers.iter().filter(|(k, _)| !k.eq_ignore_ascii_case("set-cookie")).map(|(k, v)| (k.to_ascii_lowercase(), v.clone())).collect();
                let mut names: Vec<String> = Vec::new();
                for (k, _) in &want_headers {
                    if !names.contains(k) {
                        names.push(k.clone());
                    }
                }
                for n in &names {
                    let w: Vec<&String> = want_headers.iter().filter(|(k, _)| k == n).map(|(_, v)| v).collect();
                    let g: Vec<&String> = got_plain.iter().filter(|(k, _)| k == n).map(|(_, v)| v).collect();
                    if w != g {
                        rr.violate("C07/R1", "header-lines-differ", format!("header {}: serialised {:?}, built {:?}", n, g, w));
                    }
                }
                if got_plain.len() != want_headers.len() {
                    rr.violate("C07/R1", "header-count-differs", format!("{} vs {}", got_plain.len(), want_headers.len()));
                }
                let got_cookies: Vec<&String> = v.headers.iter().filter(|(k, _)| k.eq_ignore_ascii_case("set-cookie")).map(|(_, v)| v).collect();
                if got_cookies.len() != cookie_attrs.len() {
                    rr.violate("C07/R1", "set-cookie-count", format!("{} vs {}", got_cookies.len(), cookie_attrs.len()));
                } else {
                    for (g, w) in got_cookies.iter().zip(cookie_attrs.iter()) {
                        let parts: Vec<String> = g.split("; ").map(|s| s.to_string()).collect();
                        let mut a = parts.clone();
                        let mut b = w.clone();
                        let first_ok = a.first() == b.first();
                        a.sort();
                        b.sort();
                        if !first_ok || a != b {
                            rr.violate("C07/R1", "set-cookie-attributes", format!("serialised {:?}, built {:?}", g, w));
                        }
                    }
                }
                let body = if with_cl { v.body.clone() } else { body_without_tolerated_crlf(&v).to_vec() };
                if body != m.body && !no_body_status(m.status) {
                    rr.violate("C07/R1", "body-differs", format!("{} vs {} bytes", body.len(), m.body.len()));
                }
            }
        }
        // (2) parse back, when self-delimited the way the server makes it (or no body)
        if (with_cl || m.body.is_empty()) && !no_body_status(m.status) || (no_body_status(m.status) && m.body.is_empty() && !with_cl) {
            let n = bytes.len();
            let mut plans = vec![("whole", Plan::whole()), ("bytewise", Plan::bytewise())];
            if n <= 600 {
                for k in 1..n {
                    plans.push(("split", Plan::split_at(k)));
                }
            } else {
                for _ in 0..20 {
                    plans.push(("split", Plan::split_at(1 + rng.usize_below(n - 1))));
                }
            }
            let mut p = Plan::chunks(vec![2, 1, 7]);
            p.eintr_before = vec![0, 2, 5];
            plans.push(("eintr", p));
            for (pname, plan) in plans {
                rr.evals += 1;
                let mut rd = ScriptedReader::new(&bytes, plan);
                let r = std::panic::catch_unwind(std::panic::AssertUnwindSafe(|| Response::from_stream(&mut rd)));
                match r {
                    Err(_) => {
                        rr.violate("C07/R2", format!("parser-panicked:{}", pname), show_bytes(&bytes));
                        break;
                    }
                    Ok(Err(e)) => {
                        rr.violate("C07/R2", format!("own-serialisation-rejected:{}:{}", pname, m.framing), format!("{:?} on {}", e, show_bytes(&bytes)));
                        break;
                    }
                    Ok(Ok(back)) => {
                        let (orig, _, _) = build();
                        let same_headers = {
                            let mut ok = back.headers.len() == orig.headers.len();
                            for h in orig.headers.iter() {
                                let a = back.headers.get_all(&h.name);
                                let b = orig.headers.get_all(&h.name);
                                if a != b {
                                    ok = false;
                                }
                            }
                            ok
                        };
                        if back.version != orig.version || back.status_code != orig.status_code || !same_headers || back.body != orig.body {
                            let what = if back.body != orig.body { "body" } else if !same_headers { "headers" } else { "status-line" };
                            rr.violate("C07/R2", format!("parse-back-differs:{}:{}", what, pname), format!("plan {}: parsed-back response differs in {}; bytes {}", pname, what, show_bytes(&bytes)));
                            break;
                        }
                        rr.shapes.push(fnv64(format!("ser:{}:{}:{}:{}:{}", m.status, m.headers.len(), scn.cookies.len(), m.body.len(), pname).as_bytes()) ^ scn.plan_seed);
                    }
                }
            }
        }
        rr.sample = Some(json!({"part": "ser", "status": m.status, "headers": m.headers.len(), "cookies": scn.cookies.iter().map(|c| c.attrs).collect::<Vec<_>>(), "body": m.body.len(), "serialised": show_bytes(&bytes[..bytes.len().min(200)])}));
    }

    fn run_client(&self, scn: &Scn, rr: &mut RunResult) {
        let redirect = scn.part == "redirect";
        // tables per host
        let mut tables: Vec<Vec<(String, RespModel)>> = vec![Vec::new(); 4];
        let chain: Vec<Hop> = if redirect {
            scn.chain.clone()
        } else {
            vec![Hop { host: 0, path: "/r".into(), resp: scn.resp.clone(), absolute: false }]
        };
        if chain.is_empty() {
            return;
        }
        // wire the Location headers: hop i redirects to hop i+1
        let mut chain = chain;
        let n = chain.len();
        for i in 0..n {
            chain[i].path = format!("/p{}", i);
            if i + 1 < n {
                let next_host = chain[i + 1].host % 4;
                let loc = if chain[i].absolute || next_host != chain[i].host % 4 { format!("http://{}/p{}", host_addr(next_host).ip(), i + 1) } else { format!("/p{}", i + 1) };
                chain[i].resp.status = [301u16, 302, 307][i % 3];
                chain[i].resp.headers.retain(|(k, _)| !k.eq_ignore_ascii_case("location"));
                chain[i].resp.headers.push(("Location".into(), loc));
            } else if redirect && [301u16, 302, 307].contains(&chain[i].resp.status) {
                chain[i].resp.status = 200;
            }
            let h = chain[i].host % 4;
            let (p, r) = (chain[i].path.clone(), chain[i].resp.clone());
            tables[h].push((p, r));
        }
        let result: Arc<Mutex<Option<Result<(u16, Vec<(String, String)>, Vec<u8>, String), String>>>> = Arc::new(Mutex::new(None));
        let logs: Vec<Arc<Mutex<Vec<String>>>> = (0..4).map(|_| Arc::new(Mutex::new(Vec::new()))).collect();
        let took: Arc<Mutex<u64>> = Arc::new(Mutex::new(0));
        let took2 = took.clone();
        let (result2, logs2, scn2, first_host) = (result.clone(), logs.clone(), scn.clone(), chain[0].host % 4);
        // hops reached without ever leaving the first host stay in the first request's session
        let gated: Vec<String> = chain.iter().enumerate().skip(1).take_while(|(_, h)| h.host % 4 == first_host).map(|(i, _)| format!("/p{}", i)).collect();
        let session: Arc<Mutex<Option<Vec<String>>>> = Arc::new(Mutex::new(None));
        if !scn.client_cookies.is_empty() {
            rr.count("c07.client_sends_cookies", 1);
            if redirect && scn.follow && !gated.is_empty() {
                rr.count("c07.session_cookie_checked_on_followed_hop", 1);
            }
        }
        let outcome = sim::run(scn.sim.to_config(), move || {
            let scn = scn2;
            for (h, t) in tables.iter().enumerate() {
                if t.is_empty() {
                    continue;
                }
                let l = TcpListener::bind(host_addr(h)).expect("bind");
                let (t, seg, keep, log) = (t.clone(), scn.seg.clone(), scn.keep_open, logs2[h].clone());
                let (g, sess) = (if h == first_host { gated.clone() } else { Vec::new() }, session.clone());
                humsim::thread::spawn(move || serve(l, t, seg, keep, log, g, sess));
            }
            let url = format!("http://{}/p0?q=1", host_addr(first_host).ip());
            let mut client = Client::new();
            let body = b"payload".to_vec();
            let req = match scn.method.as_str() {
                "POST" => client.post(&url, body),
                "PUT" => client.put(&url, body),
                "DELETE" => client.delete(&url),
                _ => client.get(&url),
            };
            let t_call = sim::now_ns();
            let req = req.map(|mut rq| {
                for (n, v) in &scn.client_cookies {
                    rq = rq.with_cookie(humphrey::http::cookie::Cookie::new(n, v));
                }
                rq
            });
            let r = match req {
                Ok(rq) => rq.with_redirects(scn.follow && scn.part == "redirect").send().map(|r| (u16::from(r.status_code), headers_of(&r), r.body.clone(), r.version.clone())).map_err(|e| e.to_string()),
                Err(e) => Err(format!("url rejected: {}", e)),
            };
            *result2.lock().unwrap() = Some(r);
            *took2.lock().unwrap() = sim::now_ns() - t_call;
        });
        rr.absorb(&outcome);
        rr.count(if redirect { "c07.redirect_runs" } else { "c07.client_runs" }, 1);
        // a keep-alive server holds the connection for 30 s after a self-delimiting response:
        // a client that returns only when the server gives up has waited for the close instead of
        // using the message's own length
        if scn.keep_open && *took.lock().unwrap() >= 25_000_000_000 {
            rr.violate("C07/R3", "client-waited-for-close-of-self-delimited-response", format!("the request took {} virtual ms against a keep-alive server that holds the connection open for 30 s after each self-delimiting response", *took.lock().unwrap() / 1_000_000));
        }
        let expected = if redirect && scn.follow { chain.last().unwrap().resp.clone() } else { chain[0].resp.clone() };
        let tag = format!("{}:{}", if redirect { "redirect" } else { "client" }, expected.effective_framing());
        rr.count(&format!("c07.framing.{}", expected.effective_framing()), 1);
        if redirect {
            rr.count(&format!("c07.chain_len_{}", n - 1), 1);
            if chain.iter().any(|h| h.absolute) {
                rr.count("c07.absolute_location", 1);
            }
            if chain.windows(2).any(|w| w[0].host % 4 != w[1].host % 4) {
                rr.count("c07.cross_host_redirect", 1);
            }
        }
        if outcome.panics.iter().any(|p| p.thread == "driver") {
            let p = outcome.panics.iter().find(|p| p.thread == "driver").unwrap();
            rr.violate("C07/R3", format!("client-panicked:{}", tag), format!("{} at {}", p.message, p.location));
            return;
        }
        if outcome.status != sim::EndStatus::Completed {
            rr.violate("C07/R3", format!("client-did-not-return:{}:{}", tag, if scn.keep_open { "keep-alive-server" } else { "closing-server" }), format!("{:?}; threads {:?}", outcome.status, outcome.threads.iter().filter(|t| t.state != "finished").map(|t| format!("{}:{}", t.name, t.op)).collect::<Vec<_>>()));
            return;
        }
        let res = result.lock().unwrap().clone();
        match res {
            None => rr.violate("C07/R3", "client-no-result", String::new()),
            Some(Err(e)) => rr.violate(if redirect { "C07/R4" } else { "C07/R3" }, format!("client-error:{}", tag), format!("the client returned an error ({}) for a conforming server; wire of the expected response: {}; requests seen {:?}", e, show_bytes(&expected.render()), logs.iter().map(|l| l.lock().unwrap().clone()).collect::<Vec<_>>())),
            Some(Ok((status, headers, body, _version))) => {
                if redirect && scn.follow && status != expected.status && [301u16, 302, 307].contains(&status) {
                    rr.violate("C07/R4", "stopped-at-a-redirect", format!("with redirects enabled the client returned {} from the middle of a chain of {}; requests seen {:?}", status, n - 1, logs.iter().map(|l| l.lock().unwrap().clone()).collect::<Vec<_>>()));
                } else if status != expected.status {
                    rr.violate(if redirect { "C07/R4" } else { "C07/R3" }, format!("wrong-status:{}", tag), format!("returned {} expected {}; requests seen {:?}", status, expected.status, logs.iter().map(|l| l.lock().unwrap().clone()).collect::<Vec<_>>()));
                } else {
                    if body != expected.effective_body() {
                        rr.violate("C07/R3", format!("wrong-payload:{}", tag), format!("returned {} bytes {}, sent {} bytes {}; wire {}", body.len(), show_bytes(&body[..body.len().min(40)]), expected.effective_body().len(), show_bytes(&expected.effective_body()[..expected.effective_body().len().min(40)]), show_bytes(&expected.render())));
                    }
                    if headers != expected.expected_headers() {
                        rr.violate("C07/R3", format!("wrong-headers:{}", tag), format!("returned {:?}, sent {:?}", headers, expected.expected_headers()));
                    }
                }
                rr.shapes.push(fnv64(format!("{}:{}:{}:{:?}:{}:{}", tag, expected.status, expected.body.len(), expected.chunks, scn.seg, n).as_bytes()));
            }
        }
        rr.sample = Some(json!({"part": scn.part, "method": scn.method, "follow": scn.follow, "chain": chain.iter().map(|h| format!("host{} {} -> {} {}", h.host % 4, h.path, h.resp.status, h.resp.headers.iter().find(|(k, _)| k == "Location").map(|(_, v)| v.clone()).unwrap_or_default())).collect::<Vec<_>>(), "requests_seen": logs.iter().map(|l| l.lock().unwrap().clone()).collect::<Vec<_>>()}));
    }
}

/// The k-th composition of n (k in 0..2^(n-1)): chunk sizes.
fn composition(n: usize, k: usize) -> Vec<usize> {
    let mut v = Vec::new();
    let mut cur = 1;
    for i in 0..n.saturating_sub(1) {
        if k >> i & 1 == 1 {
            v.push(cur);
            cur = 1;
        } else {
            cur += 1;
        }
    }
    if n > 0 {
        v.push(cur);
    }
    v
}

impl Prop for C07 {
    fn id(&self) -> &'static str {
        "C07"
    }
    fn level(&self) -> &'static str {
        "exploration"
    }
    fn runs(&self, tier: Tier) -> u64 {
        match tier {
            Tier::Quick => 126 + 20_000,
            Tier::Thorough => 126 + 1_000_000,
        }
    }
    fn rule(&self) -> &'static str {
        "Run indices 0..125: the real Client against a conforming chunked server for bodies of 1..6 bytes under ALL 63 compositions into chunks x {lower, upper} hex sizes (enumerated). Then seeded cases, 50% (a) a Response built through the public API over all 39 status codes, 0..40 headers with repeated names, Set-Cookie over random subsets of the 7 attributes (all 128 subsets are drawn across a batch), bodies 0..64 KiB: serialised, checked by the strict reference grammar (registered reason phrase, one line per header, Set-Cookie attributes), and parsed back under whole / bytewise / EVERY split point (<= 600 bytes) / EINTR read plans; 35% (b) the real Client (GET/POST/PUT/DELETE) against scripted servers on port 80 of simulated hosts sending Content-Length, chunked (random chunkings, either hex case), close-delimited and body-less responses, closing or keep-alive, under stream segmentations; 15% (c) redirect chains of length 0..5 over {301,302,307} with relative and absolute Location across up to 4 simulated hosts, following on or off; in half of the cases the caller attaches 1..3 cookies and the servers are session-keyed: a follow-up request on the first host that lacks a cookie pair the first request carried is answered 403 (so the chain's final response is reached only by a client that stays the same client across hops). Distinct = distinct (part, status, framing, chunking, segmentation / plan); non-trivial = everything except body-less single responses."
    }
    fn assumptions(&self) -> Vec<String> {
        vec![
            "RFC 2616 reason phrases are accepted next to RFC 9110's for 413/414/416".into(),
            "scripted servers key their answer on the request path (the query is ignored)".into(),
            "a keep-alive server only keeps the connection open after a self-delimiting response".into(),
            "parse-back is required only when the message carries the Content-Length the server adds or has no body (the serialiser's trailing CRLF after a body is pinned by test_response)".into(),
        ]
    }
    fn expected_counters(&self) -> Vec<&'static str> {
        vec!["c07.serialised", "c07.with_set_cookie", "c07.client_runs", "c07.redirect_runs", "c07.framing.chunked", "c07.framing.cl", "c07.framing.close", "c07.framing.none", "c07.all_compositions", "c07.absolute_location", "c07.cross_host_redirect", "c07.chain_len_5", "c07.chain_len_0", "c07.client_sends_cookies", "c07.session_cookie_checked_on_followed_hop", "net.segmented_write"]
    }
    fn real_vs_stub(&self) -> (Vec<&'static str>, Vec<&'static str>) {
        (vec!["Response builders, From<Response> for Vec<u8>, Response::from_stream + parse_chunk, StatusCode tables, SetCookie -> Header, Client::{get,post,put,delete,request}, ClientRequest::send incl. the redirect loop, Client::parse_url"], vec!["TcpStream (humsim::net; port 80 of simulated hosts)", "servers are harness reference implementations", "scripted reader for the parse-back part"])
    }

    fn generate(&self, seed: u64, idx: u64, tier: Tier) -> Value {
        let mut rng = Rng::new(run_seed(seed, "C07", idx));
        let mut sim = SimParams::draw(&mut rng, true);
        sim.rx_capacity = None;
        sim.max_decisions = 300_000;
        sim.cpu_tick_max_ns = Some(400);
        if idx < 126 {
            // exhaustive compositions
            let k = (idx / 2) as usize; // 0..63
            let (mut n, mut base) = (1usize, 0usize);
            while k >= base + (1 << (n - 1)) {
                base += 1 << (n - 1);
                n += 1;
            }
            let comp = composition(n, k - base);
            let body: Vec<u8> = (0..n).map(|i| b'a' + i as u8).collect();
            let resp = RespModel { version: "HTTP/1.1".into(), status: 200, headers: vec![("Content-Type".into(), "text/plain".into())], body, framing: "chunked".into(), chunks: comp, hex_upper: idx % 2 == 1, name_style: 0, sep_style: 0, wire_style: 0 };
            return serde_json::to_value(Scn { sim, part: "client".into(), resp, cookies: vec![], method: "GET".into(), seg: ["", "onebyte", "random:3"][rng.usize_below(3)].into(), keep_open: rng.chance(1, 2), chain: vec![], follow: false, client_cookies: vec![], plan_seed: 0 }).unwrap();
        }
        let r = rng.below(100);
        let part = if r < 50 { "ser" } else if r < 85 { "client" } else { "redirect" };
        let maxb = if tier == Tier::Quick { 4000 } else { 65_536 };
        let mut resp = gen_resp_model(&mut rng, maxb);
        if part == "ser" {
            // more headers, repeated names
            let extra = rng.range(0, 32) as usize;
            for i in 0..extra {
                resp.headers.push((["X-A", "X-B", "Via", "Warning", "x-a"][rng.usize_below(5)].to_string(), format!("v{}", i)));
            }
        }
        if part == "client" && resp.effective_framing() == "none" && !no_body_status(resp.status) {
            resp.framing = "cl".into();
        }
        let ncook = if part == "ser" && rng.chance(1, 2) { rng.range(1, 3) as usize } else { 0 };
        let cookies = (0..ncook).map(|j| CookieSpec { name: format!("c{}", j), value: format!("v{}", rng.below(1000)), attrs: ((idx as u32).wrapping_mul(7) + j as u32 * 37 + rng.below(128) as u32) % 128, same_site: rng.below(3) as u8 }).collect();
        let nchain = if part == "redirect" { rng.range(0, 5) as usize + 1 } else { 0 };
        let chain = (0..nchain)
            .map(|_| {
                let mut r = gen_resp_model(&mut rng, 200);
                if r.effective_framing() == "none" || r.effective_framing() == "close" {
                    r.framing = "cl".into();
                }
                Hop { host: rng.usize_below(4), path: String::new(), resp: r, absolute: rng.chance(1, 2) }
            })
            .collect();
        let mut chain: Vec<Hop> = chain;
        if rng.chance(1, 3) {
            // a chain that never leaves the first host (relative and absolute Locations alike)
            let h0 = chain.first().map(|h| h.host).unwrap_or(0);
            for h in chain.iter_mut() {
                h.host = h0;
            }
        }
        serde_json::to_value(Scn {
            sim,
            part: part.into(),
            resp,
            cookies,
            method: ["GET", "GET", "POST", "PUT", "DELETE"][rng.usize_below(5)].into(),
            seg: ["", "", "onebyte", "random:4", "fixed:3"][rng.usize_below(5)].into(),
            keep_open: rng.chance(1, 3),
            chain,
            follow: !rng.chance(1, 4),
            client_cookies: if part != "ser" && rng.chance(1, 2) { (0..rng.range(1, 3)).map(|j| (format!("s{}", j), format!("t{}", rng.below(100_000)))).collect() } else { vec![] },
            plan_seed: rng.next_u64() >> 1,
        })
        .unwrap()
    }

    fn execute(&self, scenario: &Value) -> RunResult {
        let mut rr = RunResult::default();
        let scn: Scn = match serde_json::from_value(scenario.clone()) {
            Ok(s) => s,
            Err(e) => {
                rr.harness_error = Some(format!("bad scenario: {}", e));
                return rr;
            }
        };
        if scn.part == "ser" {
            self.run_ser(&scn, &mut rr);
            rr.trace_hash = fnv64(format!("{:?}{}", rr.violations, rr.evals).as_bytes());
        } else {
            rr.evals = 1;
            if !scn.resp.chunks.is_empty() && scn.resp.body.len() <= 6 && scn.part == "client" {
                rr.count("c07.all_compositions", 1);
            }
            self.run_client(&scn, &mut rr);
        }
        rr
    }
}
