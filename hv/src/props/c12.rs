//! C12 — async WebSocket app delivers connect/message/disconnect exactly once, in order.
//!
//! The real `AsyncWebsocketApp::run` (poll loop, handler pool, `App` in front, linked and
//! unlinked construction) runs under the humsim scheduler with 1..8 reference clients on
//! the simulated network, a virtual clock for poll intervals and heartbeat timeouts, an
//! external `AsyncSender` thread, and the shutdown signal at the end.

use crate::common::*;
use crate::refs::http::ReqModel;
use crate::refs::ws::{self, RFrame};
use crate::simhttp::*;
use humphrey::App;
use humphrey_ws::async_app::{AsyncStream, AsyncWebsocketApp};
use humphrey_ws::handler::async_websocket_handler;
use humphrey_ws::message::Message;
use humphrey_ws::ping::Heartbeat;
use humsim::net::{SocketAddr, TcpStream};
use humsim::rng::Rng;
use humsim::sim;
use serde::{Deserialize, Serialize};
use serde_json::{json, Value};
use std::collections::BTreeMap;
use std::io::Write;
use std::sync::atomic::{AtomicBool, Ordering};
use std::sync::{Arc, Mutex};
use std::time::Duration;

pub struct C12;

#[derive(Serialize, Deserialize, Clone, Debug)]
pub struct Step {
    /// "msg" | "ping" | "sleep"
    pub op: String,
    /// msg: "plain" | "unicast" (handler replies to the sender) | "broadcast" (handler broadcasts)
    #[serde(default)]
    pub kind: String,
    #[serde(default)]
    pub binary: bool,
    #[serde(default)]
    pub frags: usize,
    /// messages sent back to back (several per poll interval)
    #[serde(default)]
    pub burst: usize,
    #[serde(default)]
    pub ms: u64,
    /// fragmented messages: pause between two fragments (0 = all fragments in one write); longer
    /// than a poll interval means the message arrives spread over several polls
    #[serde(default)]
    pub frag_gap_ms: u64,
}

#[derive(Serialize, Deserialize, Clone, Debug)]
pub struct ClientScript {
    pub start_ms: u64,
    pub steps: Vec<Step>,
    /// "close" | "fin" | "silent" | "stay" | "close-near-timeout" (stop answering pings, then
    /// send the Close frame when the heartbeat timeout is about to be observed)
    pub ending: String,
    /// close-near-timeout: offset in virtual microseconds around the expected timeout instant
    #[serde(default)]
    pub near_us: i64,
    /// slow reader: receive window of this client's socket (the server's writes block on it)
    #[serde(default)]
    pub window: Option<usize>,
    /// slow reader: the client starts reading frames only this long after the handshake
    #[serde(default)]
    pub read_pause_ms: u64,
    /// ending "close": 1 = a data frame follows the Close frame in the same write, 2 = a data frame
    /// is sent 30 ms after the Close frame (nothing may be dispatched for a client after its close)
    #[serde(default)]
    pub after_close: u8,
    /// ending "silent": what the client has sent of a further message when it vanishes: 0 nothing,
    /// 1 a complete non-final fragment, 2 the first three bytes of a frame
    #[serde(default)]
    pub partial_before_silence: u8,
}

#[derive(Serialize, Deserialize, Clone, Debug)]
pub struct Ext {
    pub at_ms: u64,
    /// None = broadcast, Some(cid) = unicast
    pub to: Option<usize>,
    /// extra payload bytes (large messages fill a slow reader's window)
    #[serde(default)]
    pub size: usize,
}

#[derive(Serialize, Deserialize, Clone, Debug)]
pub struct Scn {
    pub sim: SimParams,
    pub linked: bool,
    pub handler_threads: usize,
    /// poll interval in ms (0 = Some(0))
    pub poll_ms: u64,
    /// heartbeat (interval ms, timeout ms) or none
    pub heartbeat: Option<(u64, u64)>,
    pub clients: Vec<ClientScript>,
    pub external: Vec<Ext>,
}

#[derive(Clone, Debug)]
enum Ev {
    Connect(SocketAddr, u64),
    Message(SocketAddr, Vec<u8>, u64),
    Disconnect(SocketAddr, u64),
}

struct HState {
    log: Mutex<Vec<Ev>>,
}

fn client_addr(cid: usize) -> SocketAddr {
    // pairs of clients share an IP address and differ only in the port (a unicast addressed by IP
    // alone would then reach both)
    format!("10.3.0.{}:{}", cid / 2 + 1, 5000 + cid).parse().unwrap()
}

#[derive(Default, Clone)]
struct ClientOut {
    handshaken: bool,
    /// payloads of data messages received, with decision stamps
    received: Vec<(Vec<u8>, u64)>,
    sent: Vec<(Vec<u8>, u64)>,
    got_close: bool,
    garbage: Option<String>,
    ended_at: u64,
    close_sent_at: Option<u64>,
    finished: bool,
}

/// A client that vanishes in the middle of a message: every failure of such a run is reported as
/// one class.
fn collapse_mid_message(scn: &Scn, rr: &mut RunResult) {
    if scn.clients.iter().any(|c| c.ending == "silent" && c.partial_before_silence > 0) {
        rr.count("c12.silent_mid_message_endings", 1);
        if !rr.violations.is_empty() {
            let mut all: Vec<String> = rr.violations.iter().map(|v| format!("{} {}", v.rule, v.sig.split(':').next().unwrap_or(""))).collect();
            all.sort();
            all.dedup();
            let first = rr.violations[0].detail.clone();
            rr.violations.clear();
            rr.violate("C12/R8", "client-silent-mid-message-stalls-the-poll-loop", format!("a client sent part of a message and went silent (heartbeat on); consequences in this run: {:?}; first: {}", all, first));
        }
    }
}

fn frame_bytes(opcode: u8, payload: &[u8], fin: bool, k: u32) -> Vec<u8> {
    let mut f = RFrame::masked(opcode, payload.to_vec(), k.wrapping_mul(2654435761).to_be_bytes());
    f.fin = fin;
    f.encode()
}

fn run_client(cid: usize, sc: ClientScript, server: SocketAddr, out: Arc<Mutex<ClientOut>>, hb_timeout_ms: u64) {
    humsim::thread::sleep(Duration::from_millis(sc.start_ms));
    let mut s = {
        let mut r = None;
        for _ in 0..300 {
            match TcpStream::connect_from(client_addr(cid), server) {
                Ok(s) => {
                    r = Some(s);
                    break;
                }
                Err(_) => humsim::thread::sleep(Duration::from_millis(1)),
            }
        }
        match r {
            Some(s) => s,
            None => return,
        }
    };
    let req = ReqModel { method: "GET".into(), target: "/ws".into(), version: "HTTP/1.1".into(), headers: vec![("Host".into(), "sim".into()), ("Upgrade".into(), "websocket".into()), ("Connection".into(), "Upgrade".into()), ("Sec-WebSocket-Key".into(), format!("key{}", cid))], body: None }.render();
    if let Some(w) = sc.window {
        s.sim_set_window(w.clamp(300, 1 << 20));
    }
    write_all(&mut s, &req);
    let mut log = RecvLog::new();
    loop {
        if log.bytes.windows(4).any(|w| w == b"\r\n\r\n") || log.ended() {
            break;
        }
        if !read_some(&mut s, &mut log, Duration::from_secs(10)) {
            break;
        }
    }
    if !log.bytes.starts_with(b"HTTP/1.1 101") {
        return;
    }
    out.lock().unwrap().handshaken = true;
    let head_end = log.bytes.windows(4).position(|w| w == b"\r\n\r\n").map(|p| p + 4).unwrap_or(log.bytes.len());
    let leftover: Vec<u8> = log.bytes[head_end..].to_vec();
    // reader: collects frames, answers pings (unless silent)
    let silent = Arc::new(AtomicBool::new(false));
    let last_pong_ns = Arc::new(std::sync::atomic::AtomicU64::new(sim::now_ns()));
    let last_pong2 = last_pong_ns.clone();
    let stop = Arc::new(AtomicBool::new(false));
    // (a simulator mutex: it is held across socket writes, which are decision points)
    let wlock = Arc::new(humsim::sync::Mutex::new(()));
    let mut rd = s.try_clone().expect("clone");
    let wr = s.try_clone().expect("clone");
    let (out2, silent2, stop2, wlock2) = (out.clone(), silent.clone(), stop.clone(), wlock.clone());
    let read_pause_ms = sc.read_pause_ms.min(1000);
    let reader = humsim::thread::spawn(move || {
        let mut buf = leftover;
        let mut l = RecvLog::new();
        if read_pause_ms > 0 {
            humsim::thread::sleep(Duration::from_millis(read_pause_ms));
        }
        let mut wr = wr;
        let mut partial: Option<Vec<u8>> = None;
        loop {
            // decode everything complete
            loop {
                match ws::decode(&buf) {
                    ws::Dec::Frame(f, n) => {
                        buf.drain(..n);
                        match f.opcode {
                            0x9 => {
                                if !silent2.load(Ordering::SeqCst) {
                                    let _g = wlock2.lock().unwrap();
                                    let _ = wr.write_all(&frame_bytes(0xA, &f.payload, true, 99));
                                    last_pong2.store(sim::now_ns(), Ordering::SeqCst);
                                }
                            }
                            0xA => {}
                            0x8 => out2.lock().unwrap().got_close = true,
                            0x1 | 0x2 => {
                                if f.fin {
                                    out2.lock().unwrap().received.push((f.payload, sim::decision_index()));
                                } else {
                                    partial = Some(f.payload);
                                }
                            }
                            _ => {
                                if let Some(p) = partial.as_mut() {
                                    p.extend(&f.payload);
                                    if f.fin {
                                        let p = partial.take().unwrap();
                                        out2.lock().unwrap().received.push((p, sim::decision_index()));
                                    }
                                }
                            }
                        }
                    }
                    ws::Dec::NeedMore => break,
                    ws::Dec::BadOpcode => {
                        out2.lock().unwrap().garbage = Some(show_bytes(&buf[..buf.len().min(40)]));
                        return;
                    }
                }
            }
            if l.ended() || stop2.load(Ordering::SeqCst) {
                out2.lock().unwrap().ended_at = sim::decision_index();
                return;
            }
            let before = l.bytes.len();
            read_some(&mut rd, &mut l, Duration::from_millis(200));
            buf.extend_from_slice(&l.bytes[before..]);
        }
    });
    let mut n = 0usize;
    for st in &sc.steps {
        match st.op.as_str() {
            "sleep" => humsim::thread::sleep(Duration::from_millis(st.ms)),
            "ping" => {
                let _g = wlock.lock().unwrap();
                let _ = s.write_all(&frame_bytes(0x9, b"hb", true, n as u32));
            }
            _ if st.burst >= 1000 => {
                // a large burst: over a thousand small plain messages in one write, far more than
                // any per-pass budget of the poll loop
                let mut all = Vec::new();
                let mut payloads = Vec::new();
                for _ in 0..st.burst.min(2000) {
                    let payload = format!("Pc{}m{}-{}", cid, n, "x".repeat(n % 7)).into_bytes();
                    n += 1;
                    all.extend(frame_bytes(1, &payload, true, n as u32));
                    payloads.push(payload);
                }
                let _g = wlock.lock().unwrap();
                if s.write_all(&all).is_ok() {
                    let at = sim::decision_index();
                    out.lock().unwrap().sent.extend(payloads.into_iter().map(|p| (p, at)));
                }
            }
            _ => {
                for _ in 0..st.burst.clamp(1, 4) {
                    let tag = match st.kind.as_str() {
                        "unicast" => "U",
                        "broadcast" => "B",
                        _ => "P",
                    };
                    let payload = format!("{}c{}m{}-{}", tag, cid, n, "x".repeat(n % 7)).into_bytes();
                    n += 1;
                    let k = st.frags.clamp(0, 3);
                    let mut pieces: Vec<Vec<u8>> = Vec::new();
                    if k == 0 || payload.len() < 4 {
                        pieces.push(frame_bytes(if st.binary { 2 } else { 1 }, &payload, true, n as u32));
                    } else {
                        let cut = payload.len() / (k + 1);
                        for i in 0..=k {
                            let a = i * cut;
                            let b = if i == k { payload.len() } else { (i + 1) * cut };
                            pieces.push(frame_bytes(if i == 0 { if st.binary { 2 } else { 1 } } else { 0 }, &payload[a..b], i == k, (n * 8 + i) as u32));
                        }
                        // every third fragmented message carries an unsolicited Pong between its
                        // first two fragments (control frames may appear inside a fragmented message)
                        if n % 3 == 0 && pieces.len() >= 2 {
                            pieces.insert(1, frame_bytes(0xA, b"", true, (n * 8 + 7) as u32));
                        }
                    }
                    let gap = st.frag_gap_ms.min(40);
                    let mut ok = true;
                    if gap == 0 {
                        let bytes: Vec<u8> = pieces.concat();
                        let _g = wlock.lock().unwrap();
                        ok = s.write_all(&bytes).is_ok();
                    } else {
                        // one write per fragment, with a pause in between
                        for (pi, piece) in pieces.iter().enumerate() {
                            if pi > 0 {
                                humsim::thread::sleep(Duration::from_millis(gap));
                            }
                            let _g = wlock.lock().unwrap();
                            ok = ok && s.write_all(piece).is_ok();
                        }
                    }
                    if ok {
                        out.lock().unwrap().sent.push((payload, sim::decision_index()));
                    }
                }
            }
        }
    }
    match sc.ending.as_str() {
        "close" => {
            out.lock().unwrap().close_sent_at = Some(sim::decision_index());
            {
                let _g = wlock.lock().unwrap();
                let mut bytes = frame_bytes(0x8, &[0x03, 0xe8], true, 5);
                if sc.after_close == 1 {
                    bytes.extend(frame_bytes(1, format!("late-c{}", cid).as_bytes(), true, 77));
                }
                let _ = s.write_all(&bytes);
            }
            if sc.after_close == 2 {
                humsim::thread::sleep(Duration::from_millis(30));
                let _g = wlock.lock().unwrap();
                let _ = s.write_all(&frame_bytes(1, format!("late-c{}", cid).as_bytes(), true, 78));
            }
            // wait for the server's close / EOF
            let _ = reader.join();
        }
        "fin" => {
            out.lock().unwrap().close_sent_at = Some(sim::decision_index());
            let _ = s.shutdown(humsim::net::Shutdown::Write);
            let _ = reader.join();
        }
        "drop" => {
            // the client process goes away: the socket is closed in both directions, so whatever
            // the server writes to it from now on fails
            out.lock().unwrap().close_sent_at = Some(sim::decision_index());
            stop.store(true, Ordering::SeqCst);
            let _ = s.shutdown(humsim::net::Shutdown::Both);
            let _ = reader.join();
        }
        "close-near-timeout" => {
            // stop answering pings (but stay reachable); the server last heard a pong at about
            // last_pong_ns, so it will observe the timeout at about last_pong_ns + timeout
            silent.store(true, Ordering::SeqCst);
            let due = last_pong_ns.load(Ordering::SeqCst) as i64 + hb_timeout_ms as i64 * 1_000_000 + sc.near_us * 1000;
            let now = sim::now_ns() as i64;
            if due > now {
                humsim::thread::sleep(Duration::from_nanos((due - now) as u64));
            }
            out.lock().unwrap().close_sent_at = Some(sim::decision_index());
            {
                let _g = wlock.lock().unwrap();
                let _ = s.write_all(&frame_bytes(0x8, &[0x03, 0xe8], true, 5));
            }
            let _ = reader.join();
        }
        "silent" => {
            out.lock().unwrap().close_sent_at = Some(sim::decision_index());
            if sc.partial_before_silence > 0 {
                // the client vanishes in the middle of a message (never completed, never owed)
                let whole = frame_bytes(1, format!("Pc{}-never-completed", cid).as_bytes(), false, 4242);
                let _g = wlock.lock().unwrap();
                let _ = s.write_all(if sc.partial_before_silence == 1 { &whole[..] } else { &whole[..3] });
            }
            silent.store(true, Ordering::SeqCst);
            s.sim_go_silent();
            // keep the socket (a partitioned peer does not close)
            humsim::thread::sleep(Duration::from_secs(3600));
        }
        _ => {
            // stay connected until the scenario ends
            humsim::thread::sleep(Duration::from_secs(3600));
            stop.store(true, Ordering::SeqCst);
        }
    }
    out.lock().unwrap().finished = true;
}

impl Prop for C12 {
    fn id(&self) -> &'static str {
        "C12"
    }
    fn level(&self) -> &'static str {
        "exploration"
    }
    fn runs(&self, tier: Tier) -> u64 {
        match tier {
            Tier::Quick => 40_000,
            Tier::Thorough => 800_000,
        }
    }
    fn rule(&self) -> &'static str {
        "One case = 1..8 reference clients each running a script over {connect at a time, send text/binary messages (possibly fragmented (every third such message with a Pong between its first two fragments), with all fragments in one write or 1..40 ms apart so that a message is spread over several polls; bursts of several within one poll interval, now and then 1200 in one write; plain, asking the handler for a unicast reply, asking for a broadcast), ping, sleep} and ending by Close frame (sometimes followed by a data frame, which must not be dispatched), abrupt FIN, closing the socket outright (server writes to it then fail), going silent (partition, with heartbeat on; one time in twenty in the middle of a message: after a non-final fragment or three bytes into a frame) or staying connected; an external AsyncSender thread issuing unicasts and broadcasts (3..60 KB ones when a slow-reading client with a 600..4000-byte receive window is present) at scripted virtual times; handler pools of 1..8 threads; poll interval none / 1..10 ms; heartbeat off or (interval, timeout); linked and unlinked construction; then the shutdown signal. All under one seeded schedule (random / sticky / PCT / round-robin) of the poll loop, the pool, the front App and the clients. Distinct = distinct event-log shape (per client: connect / message count / disconnect, order class) plus configuration; non-trivial = at least two clients or one client with at least two messages, and at least one server-side send."
    }
    fn assumptions(&self) -> Vec<String> {
        vec![
            "handler invocation order equals dispatch order only with a one-thread handler pool; strict per-client order is asserted there, exactly-once always".into(),
            "a broadcast must reach a client exactly once if that client stays connected from before the broadcast is requested until the end of the scenario; clients in the admission/removal window at most once".into(),
            "messages written before an abrupt FIN (half-close: the client still reads) are still owed, TCP delivers them before the FIN; messages of a client that went silent, or that closed its socket outright (the server's Pong or reply then fails and the connection is given up), are dispatched at most once".into(),
            "heartbeat timeouts are 1.5 x, 2 x (Humphrey's default ratio) or several times the interval, and the network round trip is kept below an eighth of (timeout - interval): a live client's last pong is then never older than the timeout when it is checked".into(),
            "the streams map is hashed with a key drawn from the run's entropy stream under the hook, so its iteration order (dispatch and broadcast order) varies from run to run as it does with RandomState from process to process".into(),
            "poll intervals are 1..10 ms, or none at all (one case in eight): the loop then spins and virtual time advances only by the per-decision CPU cost, drawn up to 40 us in those cases".into(),
        ]
    }
    fn expected_counters(&self) -> Vec<&'static str> {
        vec!["c12.clients", "c12.messages_sent", "c12.fragmented", "c12.fragments_spread_over_polls", "c12.bursts", "c12.burst_of_over_1000_messages", "c12.unicast_replies", "c12.handler_broadcasts", "c12.external_sends", "c12.close_endings", "c12.fin_endings", "c12.data_after_close", "c12.drop_endings", "c12.silent_endings", "c12.silent_mid_message_endings", "c12.close_near_timeout_endings", "c12.heartbeat_on", "c12.linked", "c12.unlinked", "c12.single_handler_thread", "c12.slow_reader", "c12.no_poll_interval", "net.silent_peer"]
    }
    fn real_vs_stub(&self) -> (Vec<&'static str>, Vec<&'static str>) {
        (vec!["AsyncWebsocketApp::run, AsyncStream/AsyncSender, async_websocket_handler + handshake, WebsocketStream::recv_nonblocking/send/ping, ThreadPool, App"], vec!["threads, Mutex/mpsc, sleep, Instant, TCP, the streams HashMap's hasher (humsim)", "clients are harness reference RFC 6455 implementations"])
    }

    fn generate(&self, seed: u64, idx: u64, tier: Tier) -> Value {
        let mut rng = Rng::new(run_seed(seed, "C12", idx));
        let nclients = match rng.below(4) {
            0 => 1,
            1 => 2,
            _ => rng.range(2, if tier == Tier::Quick { 5 } else { 8 }),
        } as usize;
        let heartbeat = if rng.chance(1, 3) { Some(([200u64, 500][rng.usize_below(2)], [1500u64, 3000][rng.usize_below(2)])) } else { None };
        let mut clients = Vec::new();
        for _ in 0..nclients {
            let nsteps = rng.range(0, 5) as usize;
            let mut steps = Vec::new();
            for _ in 0..nsteps {
                let r = rng.below(10);
                if r < 6 {
                    steps.push(Step { op: "msg".into(), kind: ["plain", "plain", "unicast", "broadcast"][rng.usize_below(4)].into(), binary: rng.chance(1, 3), frags: if rng.chance(1, 3) { rng.range(1, 3) as usize } else { 0 }, burst: if rng.chance(1, 3) { rng.range(2, 4) as usize } else { 1 }, ms: 0, frag_gap_ms: 0 });
                } else if r < 7 {
                    steps.push(Step { op: "ping".into(), kind: String::new(), binary: false, frags: 0, burst: 0, ms: 0, frag_gap_ms: 0 });
                } else {
                    steps.push(Step { op: "sleep".into(), kind: String::new(), binary: false, frags: 0, burst: 0, ms: [1u64, 5, 12, 40, 300][rng.usize_below(5)], frag_gap_ms: 0 });
                }
            }
            let ending = match rng.below(8) {
                0..=2 => "close",
                3..=4 if heartbeat.is_some() => "fin",
                5 if heartbeat.is_some() => "silent",
                6 if heartbeat.is_some() => "close-near-timeout",
                _ => "stay",
            };
            clients.push(ClientScript { start_ms: [0u64, 0, 3, 20, 100][rng.usize_below(5)], steps, ending: ending.into(), near_us: rng.below(24_000) as i64 - 4_000, window: None, read_pause_ms: 0, after_close: 0, partial_before_silence: 0 });
        }
        let next = rng.range(0, 3) as usize;
        let mut external: Vec<Ext> = (0..next).map(|_| Ext { at_ms: [5u64, 30, 150, 600][rng.usize_below(4)], to: if rng.chance(1, 2) { None } else { Some(rng.usize_below(nclients)) }, size: 0 }).collect();
        // dimensions added later are drawn from their own stream, so the older ones keep their values:
        // a slow-reading client and large server-side messages (only without a heartbeat: a poll loop
        // blocked in a write to a slow reader would let other clients' heartbeats lapse, which is
        // Humphrey's design and not what this property judges)
        let mut rng2 = Rng::new(humsim::rng::mix(&[run_seed(seed, "C12", idx), 0xC12_0002]));
        // a quarter of the clients that end with a Close frame send a data frame after it
        for c in clients.iter_mut() {
            if c.ending == "close" && rng2.chance(1, 4) {
                c.after_close = 1 + rng2.below(2) as u8;
            }
        }
        // fragmented messages: half of them arrive with a pause between the fragments (spread over
        // several polls when the pause exceeds the poll interval)
        for c in clients.iter_mut() {
            for st in c.steps.iter_mut() {
                // (only without a heartbeat: Humphrey reads the rest of a started message with
                // blocking reads, so a pausing client stalls the poll loop, and the heartbeats of
                // other clients may lapse meanwhile -- its design, not what this property judges)
                if heartbeat.is_none() && st.op == "msg" && st.frags > 0 && rng2.chance(1, 2) {
                    st.frag_gap_ms = [1u64, 4, 15, 25, 40][rng2.usize_below(5)];
                }
            }
        }
        // half of the FIN endings become a full close of the socket (writes to it then fail)
        for c in clients.iter_mut() {
            if c.ending == "fin" && rng2.chance(1, 2) {
                c.ending = "drop".into();
            }
        }
        // tight heartbeats: Humphrey's default ratio (timeout = 2 x interval) and 1.5 x
        let heartbeat = match heartbeat {
            Some((i, _)) if rng2.chance(1, 2) => Some((i, if rng2.chance(2, 3) { 2 * i } else { i + i / 2 })),
            h => h,
        };
        if heartbeat.is_none() && rng2.chance(1, 4) {
            let k = rng2.usize_below(nclients);
            clients[k].window = Some(rng2.range(600, 4000) as usize);
            clients[k].read_pause_ms = [0u64, 0, 50, 400][rng2.usize_below(4)];
            if external.is_empty() {
                external.push(Ext { at_ms: [5u64, 30, 150][rng2.usize_below(3)], to: None, size: 0 });
            }
            for e in external.iter_mut() {
                e.size = [3000usize, 20_000, 60_000][rng2.usize_below(3)];
            }
        }
        // one case in ten with a heartbeat: a client sends over a thousand small messages in one
        // write while heartbeats are tight (200 ms / 300 ms) and the poll interval is 10 ms -- a live
        // client that answers its pings stays connected however much it sends
        let mut rng4 = Rng::new(humsim::rng::mix(&[run_seed(seed, "C12", idx), 0xC12_0004]));
        let big_burst = heartbeat.is_some() && rng4.chance(1, 10);
        let heartbeat = if big_burst { Some((200u64, 300u64)) } else { heartbeat };
        if big_burst {
            let k = rng4.usize_below(nclients);
            let at = rng4.usize_below(clients[k].steps.len() + 1);
            clients[k].steps.insert(at, Step { op: "msg".into(), kind: "plain".into(), binary: false, frags: 0, burst: 1200, ms: 0, frag_gap_ms: 0 });
        }
        // one silent ending in three happens in the middle of a message
        for c in clients.iter_mut() {
            if c.ending == "silent" && !big_burst && rng4.chance(1, 20) {
                c.partial_before_silence = 1 + rng4.below(2) as u8;
            }
        }
        let stalls = clients.iter().any(|c| c.partial_before_silence > 0);
        let mut sim = SimParams::draw(&mut rng, true);
        sim.short_write_permille = 0;
        sim.rx_capacity = None;
        sim.cpu_tick_max_ns = Some(2000);
        sim.max_decisions = if stalls { 100_000 } else { 1_500_000 };
        let linked = rng.chance(1, 2);
        let handler_threads = [1usize, 1, 2, 4, 8][rng.usize_below(5)];
        let mut poll_ms = [1u64, 2, 5, 10, 10][rng.usize_below(5)];
        // no polling interval at all (the loop spins): one case in eight
        if rng2.chance(1, 8) {
            poll_ms = 0;
        }
        if big_burst {
            poll_ms = 10;
        }
        serde_json::to_value(Scn { sim, linked, handler_threads, poll_ms, heartbeat, clients, external }).unwrap()
    }

    fn execute(&self, scenario: &Value) -> RunResult {
        let mut rr = RunResult { evals: 1, ..Default::default() };
        let mut scn: Scn = match serde_json::from_value(scenario.clone()) {
            Ok(s) => s,
            Err(e) => {
                rr.harness_error = Some(format!("bad scenario: {}", e));
                return rr;
            }
        };
        if scn.clients.is_empty() {
            return rr;
        }
        // a slow reader drains a large message one receive window per round trip: keep the round
        // trip short, so that the transfer (during which the poll loop is blocked in its write, by
        // Humphrey's design) is over long before the scenario ends
        let slow = scn.clients.iter().any(|c| c.window.is_some());
        if slow {
            scn.sim.latency_max_ns = Some(scn.sim.latency_max_ns.unwrap_or(200_000).min(200_000));
            scn.sim.default_seg = None;
            scn.heartbeat = None;
        }
        // without a polling interval the loop spins: virtual time then advances only by the per-decision
        // CPU cost, which is made coarse (up to 40 us) so that seconds of virtual time stay affordable
        if scn.poll_ms == 0 {
            scn.sim.cpu_tick_max_ns = Some(40_000);
            scn.sim.max_decisions = 6_000_000;
            // a spinning thread never blocks, so only a fair strategy is a legal schedule for it
            // (under PCT or a sticky strategy it would keep the baton forever, which no OS does)
            if scn.sim.strategy != "rr" {
                scn.sim.strategy = "random".into();
            }
            rr.count("c12.no_poll_interval", 1);
        }
        if scn.heartbeat.is_some() {
            for c in scn.clients.iter_mut() {
                for st in c.steps.iter_mut() {
                    st.frag_gap_ms = 0;
                }
            }
        }
        let slow_extra_ms = if slow { 1500 + scn.clients.iter().map(|c| c.read_pause_ms.min(1000)).max().unwrap_or(0) } else { 0 };
        let server: SocketAddr = "10.3.1.1:8090".parse().unwrap();
        let outs: Vec<Arc<Mutex<ClientOut>>> = scn.clients.iter().map(|_| Arc::new(Mutex::new(ClientOut::default()))).collect();
        let hstate = Arc::new(HState { log: Mutex::new(Vec::new()) });
        // (request stamp, payload, to)
        let ext_log: Arc<Mutex<Vec<(u64, Vec<u8>, Option<usize>)>>> = Arc::new(Mutex::new(Vec::new()));
        let run_returned: Arc<Mutex<Option<(u64, u64)>>> = Arc::new(Mutex::new(None)); // (shutdown sent ns, returned ns)
        let (scn2, outs2, hs2, ext2, rr2) = (scn.clone(), outs.clone(), hstate.clone(), ext_log.clone(), run_returned.clone());
        // (timeout at least 1.5 x interval: a live client's last pong is at most one interval plus one
        // poll period plus one round trip old when the timeout is checked)
        let hb = scn.heartbeat.map(|(i, t)| (i.max(50), t.max(i.max(50) + i.max(50) / 2)));
        if let Some((i, t)) = hb {
            // the round trip must be short compared with the margin between timeout and interval
            let cap_ns = (t - i) * 1_000_000 / 8;
            scn.sim.latency_max_ns = Some(scn.sim.latency_max_ns.unwrap_or(cap_ns).min(cap_ns));
        }
        // an abrupt end (FIN without Close frame, or silence) is only detectable through the
        // heartbeat: without one such a client simply stays (the property's quantifier says
        // "abrupt disconnect with heartbeat on")
        let mut scn = scn;
        for c in scn.clients.iter_mut() {
            if hb.is_none() && (c.ending == "fin" || c.ending == "drop" || c.ending == "silent" || c.ending == "close-near-timeout") {
                c.ending = "stay".into();
            }
        }
        let outcome = sim::run(scn.sim.to_config(), move || {
            let scn = scn2;
            let (tx, rx) = humsim::sync::mpsc::channel::<()>();
            let build = |app: AsyncWebsocketApp<Arc<HState>>| {
                let mut app = app
                    .with_polling_interval(if scn.poll_ms == 0 { None } else { Some(Duration::from_millis(scn.poll_ms.clamp(1, 50))) })
                    .with_connect_handler(|s: AsyncStream, st: Arc<Arc<HState>>| {
                        st.log.lock().unwrap().push(Ev::Connect(s.peer_addr(), sim::decision_index()));
                    })
                    .with_disconnect_handler(|s: AsyncStream, st: Arc<Arc<HState>>| {
                        st.log.lock().unwrap().push(Ev::Disconnect(s.peer_addr(), sim::decision_index()));
                    })
                    .with_message_handler(|s: AsyncStream, m: Message, st: Arc<Arc<HState>>| {
                        let b = m.bytes().to_vec();
                        st.log.lock().unwrap().push(Ev::Message(s.peer_addr(), b.clone(), sim::decision_index()));
                        if b.first() == Some(&b'U') {
                            let mut r = b"re:".to_vec();
                            r.extend(&b);
                            s.send(Message::new(r));
                        } else if b.first() == Some(&b'B') {
                            let mut r = b"bc:".to_vec();
                            r.extend(&b);
                            s.broadcast(Message::new(r));
                        }
                    })
                    .with_shutdown(rx);
                if let Some((i, t)) = hb {
                    app = app.with_heartbeat(Heartbeat::new(Duration::from_millis(i), Duration::from_millis(t)));
                }
                app
            };
            let app = if scn.linked {
                build(AsyncWebsocketApp::new_with_config(hs2.clone(), scn.handler_threads.clamp(1, 8), scn.clients.len().clamp(1, 8)).with_address(server))
            } else {
                let a = build(AsyncWebsocketApp::new_unlinked_with_config(hs2.clone(), scn.handler_threads.clamp(1, 8)));
                let hook = a.connect_hook().unwrap();
                let front: App<()> = App::new_with_config(scn.clients.len().clamp(1, 8), ()).with_websocket_route("/ws", async_websocket_handler(hook));
                humsim::thread::spawn(move || {
                    let _ = front.run(server);
                });
                a
            };
            let sender = app.sender();
            let runner = humsim::thread::spawn(move || app.run());
            // external sender
            let ext = scn.external.clone();
            let ext_log = ext2.clone();
            humsim::thread::spawn(move || {
                let mut ext = ext;
                ext.sort_by_key(|e| e.at_ms);
                let mut now = 0;
                for (k, e) in ext.iter().enumerate() {
                    humsim::thread::sleep(Duration::from_millis(e.at_ms.saturating_sub(now)));
                    now = e.at_ms;
                    let payload = if e.size > 0 { format!("ext{}-{}", k, "y".repeat(e.size.min(70_000))) } else { format!("ext{}", k) }.into_bytes();
                    ext_log.lock().unwrap().push((sim::decision_index(), payload.clone(), e.to));
                    match e.to {
                        None => sender.broadcast(Message::new(payload)),
                        Some(cid) => sender.send(client_addr(cid), Message::new(payload)),
                    }
                }
            });
            let mut hs = Vec::new();
            for (cid, c) in scn.clients.iter().enumerate() {
                let (c, o) = (c.clone(), outs2[cid].clone());
                let hbt = hb.map(|x| x.1).unwrap_or(0);
                hs.push((c.ending.clone(), humsim::thread::spawn(move || run_client(cid, c, server, o, hbt))));
            }
            // wait for the clients that end by themselves; then let the server settle
            for (ending, h) in hs {
                if ending == "close" || ending == "fin" || ending == "drop" || ending == "close-near-timeout" {
                    let _ = h.join();
                }
            }
            // (a script takes its sleeps plus the pauses between the fragments of its messages; what it
            // sends last still has to cross the network, be dispatched, and its replies cross back)
            let longest: u64 = scn.clients.iter().map(|c| c.start_ms + c.steps.iter().map(|s| s.ms + (s.burst.clamp(1, 4) * s.frags.clamp(0, 3)) as u64 * s.frag_gap_ms.min(40)).sum::<u64>()).max().unwrap_or(0);
            let net_ms = 3 * scn.sim.latency_max_ns.unwrap_or(0) / 1_000_000;
            let settle = longest + 1200 + net_ms + slow_extra_ms + hb.map(|(i, t)| t + 2 * i).unwrap_or(0);
            humsim::thread::sleep(Duration::from_millis(settle));
            let t_sig = sim::now_ns();
            let _ = tx.send(());
            let _ = runner.join();
            *rr2.lock().unwrap() = Some((t_sig, sim::now_ns()));
        });
        rr.absorb(&outcome);
        // probes
        rr.count("c12.clients", scn.clients.len() as u64);
        rr.count(if scn.linked { "c12.linked" } else { "c12.unlinked" }, 1);
        if scn.clients.iter().any(|c| c.window.is_some()) {
            rr.count("c12.slow_reader", 1);
        }
        if scn.handler_threads.clamp(1, 8) == 1 {
            rr.count("c12.single_handler_thread", 1);
        }
        if hb.is_some() {
            rr.count("c12.heartbeat_on", 1);
        }
        rr.count("c12.external_sends", scn.external.len() as u64);
        for c in &scn.clients {
            match c.ending.as_str() {
                "close" => {
                    rr.count("c12.close_endings", 1);
                    if c.after_close > 0 {
                        rr.count("c12.data_after_close", 1);
                    }
                }
                "fin" => rr.count("c12.fin_endings", 1),
                "drop" => rr.count("c12.drop_endings", 1),
                "silent" => rr.count("c12.silent_endings", 1),
                _ => {}
            }
            for s in &c.steps {
                if s.op == "msg" {
                    rr.count("c12.messages_sent", if s.burst >= 1000 { s.burst.min(2000) } else { s.burst.clamp(1, 4) } as u64);
                    if s.burst >= 1000 {
                        rr.count("c12.burst_of_over_1000_messages", 1);
                    }
                    if s.frags > 0 && s.frag_gap_ms > 0 {
                        rr.count("c12.fragments_spread_over_polls", 1);
                    }
                    if s.frags > 0 {
                        rr.count("c12.fragmented", 1);
                    }
                    if s.burst > 1 {
                        rr.count("c12.bursts", 1);
                    }
                    if s.kind == "unicast" {
                        rr.count("c12.unicast_replies", 1);
                    }
                    if s.kind == "broadcast" {
                        rr.count("c12.handler_broadcasts", 1);
                    }
                }
            }
        }
        let cfg = format!("{}:h{}:p{}:hb{}", if scn.linked { "linked" } else { "unlinked" }, if scn.handler_threads <= 1 { "1" } else { "n" }, scn.poll_ms, hb.is_some());
        if outcome.panics.iter().any(|p| p.thread != "driver" && !p.thread.starts_with("<unnamed")) || outcome.panics.iter().any(|p| p.location.contains("/repo/")) {
            let p = outcome.panics.iter().find(|p| p.location.contains("/repo/")).unwrap_or(&outcome.panics[0]);
            let site = p.location.rsplit('/').next().unwrap_or("").split(':').take(2).collect::<Vec<_>>().join(":");
            rr.violate("C12/R0", format!("server-panicked:{}", site), format!("{}: {} at {}", p.thread, p.message, p.location));
        }
        match outcome.status {
            sim::EndStatus::Completed => {}
            ref s => {
                let sig = if run_returned.lock().unwrap().is_none() { format!("run-did-not-return-after-shutdown:{:?}", s) } else { format!("run-ended:{:?}", s) };
                rr.violate("C12/R7", sig, format!("{:?}; threads {:?}", s, outcome.threads.iter().filter(|t| t.state != "finished").map(|t| format!("{}:{}", t.name, t.op)).take(12).collect::<Vec<_>>()));
                collapse_mid_message(&scn, &mut rr);
                return rr;
            }
        }
        if let Some((t0, t1)) = *run_returned.lock().unwrap() {
            let budget = (scn.poll_ms.clamp(1, 50) + 1000) * 1_000_000;
            if t1 - t0 > budget {
                rr.violate("C12/R7", "run-returned-late", format!("run returned {} ms after the shutdown signal (poll interval {} ms)", (t1 - t0) / 1_000_000, scn.poll_ms));
            }
        }
        let log = hstate.log.lock().unwrap().clone();
        let ext = ext_log.lock().unwrap().clone();
        let one_thread = scn.handler_threads.clamp(1, 8) == 1;
        let mut shape = String::new();
        let mut server_sends = ext.len();
        for (cid, c) in scn.clients.iter().enumerate() {
            let o = outs[cid].lock().unwrap().clone();
            let addr = client_addr(cid);
            let connects: Vec<u64> = log.iter().filter_map(|e| if let Ev::Connect(a, s) = e { if *a == addr { Some(*s) } else { None } } else { None }).collect();
            let discs: Vec<u64> = log.iter().filter_map(|e| if let Ev::Disconnect(a, s) = e { if *a == addr { Some(*s) } else { None } } else { None }).collect();
            let msgs: Vec<(Vec<u8>, u64)> = log.iter().filter_map(|e| if let Ev::Message(a, b, s) = e { if *a == addr { Some((b.clone(), *s)) } else { None } } else { None }).collect();
            shape.push_str(&format!("[{}c{}m{}d{}]", c.ending, connects.len(), msgs.len(), discs.len()));
            if let Some(g) = &o.garbage {
                rr.violate("C12/R5", "client-received-malformed-frames", format!("client {} received bytes that are not frames: {}", cid, g));
                continue;
            }
            if !o.handshaken {
                if !connects.is_empty() {
                    rr.violate("C12/R1", "connect-without-handshake", format!("client {}", cid));
                }
                continue;
            }
            // R1
            if connects.len() != 1 {
                rr.violate("C12/R1", format!("connect-handler-called-{}-times:{}", connects.len().min(2), cfg), format!("client {} completed the handshake; connect handler calls: {}", cid, connects.len()));
            }
            // R2 exactly once (multiset)
            // a client that closed its socket outright cannot be answered any more: a Pong or a reply
            // the server tries to write fails, and Humphrey then treats the connection as gone
            // without reading what is still buffered; like a silent client its messages are
            // dispatched at most once, not necessarily once
            let owed = c.ending != "silent" && c.ending != "drop";
            if c.ending == "close-near-timeout" {
                rr.count("c12.close_near_timeout_endings", 1);
            }
            let mut sent_count: BTreeMap<Vec<u8>, i64> = BTreeMap::new();
            for (p, _) in &o.sent {
                *sent_count.entry(p.clone()).or_insert(0) += 1;
            }
            let mut got_count: BTreeMap<Vec<u8>, i64> = BTreeMap::new();
            for (p, _) in &msgs {
                *got_count.entry(p.clone()).or_insert(0) += 1;
            }
            for (p, n) in &got_count {
                let s = sent_count.get(p).copied().unwrap_or(0);
                if s == 0 {
                    rr.violate("C12/R2", "message-never-sent-was-dispatched", format!("client {}: handler got {} which was never sent", cid, show_bytes(p)));
                } else if *n > s {
                    rr.violate("C12/R2", format!("message-dispatched-twice:{}", cfg), format!("client {}: {} dispatched {} times, sent {}", cid, show_bytes(p), n, s));
                }
            }
            if owed {
                for (p, n) in &sent_count {
                    if got_count.get(p).copied().unwrap_or(0) < *n {
                        rr.violate("C12/R2", format!("message-not-dispatched:{}:{}", c.ending, cfg), format!("client {} sent {} (ending {}), the message handler got it {} time(s); {} of {} messages dispatched", cid, show_bytes(p), c.ending, got_count.get(p).copied().unwrap_or(0), msgs.len(), o.sent.len()));
                        break;
                    }
                }
            }
            // R3 disconnect exactly once per closed client
            let closed = c.ending == "close" || c.ending == "fin" || c.ending == "drop" || c.ending == "close-near-timeout" || (c.ending == "silent" && hb.is_some());
            if closed && discs.len() != 1 {
                rr.violate("C12/R3", format!("disconnect-handler-called-{}-times:{}:{}", discs.len().min(2), c.ending, cfg), format!("client {} ended by {}; disconnect handler calls: {}", cid, c.ending, discs.len()));
            }
            if !closed && !discs.is_empty() {
                rr.violate("C12/R3", format!("disconnect-for-live-client:{}", cfg), format!("client {} stayed connected (ending {}) but the disconnect handler ran {} time(s)", cid, c.ending, discs.len()));
            }
            // R4 order (one handler thread: invocation order = dispatch order)
            if one_thread {
                if let (Some(c0), Some((_, m0))) = (connects.first(), msgs.first()) {
                    if m0 < c0 {
                        rr.violate("C12/R4", "message-before-connect", format!("client {}: a message was handled before the connect handler", cid));
                    }
                }
                let order: Vec<&Vec<u8>> = msgs.iter().map(|m| &m.0).collect();
                let sent_order: Vec<&Vec<u8>> = o.sent.iter().map(|m| &m.0).filter(|p| order.contains(p)).collect();
                if order != sent_order {
                    rr.violate("C12/R4", "messages-out-of-order", format!("client {}: handled {:?}, sent {:?}", cid, order.iter().map(|p| show_bytes(p)).collect::<Vec<_>>(), sent_order.iter().map(|p| show_bytes(p)).collect::<Vec<_>>()));
                }
                if let Some(d) = discs.first() {
                    if msgs.iter().any(|(_, s)| s > d) || connects.iter().any(|s| s > d) {
                        rr.violate("C12/R4", "event-after-disconnect", format!("client {}: an event was handled after its disconnect", cid));
                    }
                }
            }
            // R5 unicast replies: exactly the replies to this client's own U messages, nobody else's
            let dispatched_u: Vec<Vec<u8>> = msgs.iter().filter(|(p, _)| p.first() == Some(&b'U')).map(|(p, _)| p.clone()).collect();
            server_sends += dispatched_u.len();
            for (p, _) in &o.received {
                if p.starts_with(b"re:") {
                    let orig = p[3..].to_vec();
                    if !o.sent.iter().any(|(s, _)| *s == orig) {
                        rr.violate("C12/R5", "unicast-reached-another-client", format!("client {} received {} which answers another client's message", cid, show_bytes(p)));
                    }
                }
                if p.starts_with(b"ext") {
                    if let Some((_, _, Some(to))) = ext.iter().find(|(_, q, _)| q == p) {
                        if *to != cid {
                            rr.violate("C12/R5", "external-unicast-reached-another-client", format!("client {} received {} addressed to client {}", cid, show_bytes(p), to));
                        }
                    }
                }
            }
            // replies are owed to clients that stay until the end
            let stays = c.ending == "stay";
            if stays {
                for u in &dispatched_u {
                    let mut want = b"re:".to_vec();
                    want.extend(u);
                    let k = o.received.iter().filter(|(p, _)| *p == want).count();
                    if k != 1 {
                        rr.violate("C12/R5", format!("unicast-reply-received-{}-times:{}", k.min(2), cfg), format!("client {} stayed connected; reply {} received {} times", cid, show_bytes(&want), k));
                    }
                }
            }
            // R6 broadcasts: nobody twice; certainly-connected clients exactly once
            let mut bc: BTreeMap<Vec<u8>, usize> = BTreeMap::new();
            for (p, _) in &o.received {
                if p.starts_with(b"bc:") || (p.starts_with(b"ext") && ext.iter().any(|(_, q, to)| q == p && to.is_none())) {
                    *bc.entry(p.clone()).or_insert(0) += 1;
                }
            }
            for (p, n) in &bc {
                if *n > 1 {
                    rr.violate("C12/R6", format!("broadcast-received-twice:{}", cfg), format!("client {} received broadcast {} {} times", cid, show_bytes(p), n));
                }
            }
            if stays && connects.len() == 1 {
                // broadcasts requested after this client's connect handler ran
                let c0 = connects[0];
                for (stamp, p, to) in &ext {
                    if to.is_none() && *stamp > c0 && bc.get(p).copied().unwrap_or(0) != 1 {
                        rr.violate("C12/R6", format!("broadcast-missed-by-connected-client:external:{}", cfg), format!("client {} was connected (connect handled at #{}) before external broadcast {} was requested (#{}) and stayed, but received it {} time(s)", cid, c0, show_bytes(p), stamp, bc.get(p).copied().unwrap_or(0)));
                    }
                }
                for e in &log {
                    if let Ev::Message(_, b, stamp) = e {
                        if b.first() == Some(&b'B') && *stamp > c0 {
                            let mut want = b"bc:".to_vec();
                            want.extend(b);
                            if bc.get(&want).copied().unwrap_or(0) != 1 {
                                rr.violate("C12/R6", format!("broadcast-missed-by-connected-client:handler:{}", cfg), format!("client {} was connected before broadcast {} was requested and stayed, but received it {} time(s)", cid, show_bytes(&want), bc.get(&want).copied().unwrap_or(0)));
                            }
                        }
                    }
                }
            }
        }
        server_sends += log.iter().filter(|e| matches!(e, Ev::Message(_, b, _) if b.first() == Some(&b'B'))).count();
        let total_msgs: usize = outs.iter().map(|o| o.lock().unwrap().sent.len()).sum();
        if (scn.clients.len() >= 2 || total_msgs >= 2) && server_sends >= 1 {
            rr.shapes.push(fnv64(format!("{}|{}", shape, cfg).as_bytes()));
        }
        // A client that vanishes in the middle of a message: every failure of such a run is
        // reported as one class (the poll loop reads the rest of a started message with blocking
        // reads, so everything else in the run is a consequence of that one stall).
        collapse_mid_message(&scn, &mut rr);
        rr.sample = Some(json!({"config": cfg, "clients": scn.clients.iter().map(|c| format!("start {} ms, {} steps, ending {}", c.start_ms, c.steps.len(), c.ending)).collect::<Vec<_>>(), "event_log": log.iter().take(40).map(|e| match e { Ev::Connect(a, s) => format!("#{} connect {}", s, a), Ev::Message(a, b, s) => format!("#{} message {} {}", s, a, show_bytes(b)), Ev::Disconnect(a, s) => format!("#{} disconnect {}", s, a) }).collect::<Vec<_>>(), "external": ext.iter().map(|(s, p, to)| format!("#{} {} to {:?}", s, show_bytes(p), to)).collect::<Vec<_>>()}));
        rr
    }
}
