//! C03 — no input can crash, wedge or exhaust a parser.
//!
//! Faults are injected at the parsers' byte sources (the `Read` argument, a simulated
//! socket for the WebSocket message reader, real files for config `include`): EOF / reset
//! at every offset, every single-byte substitution and bit flip, deleted / doubled
//! delimiters, length fields replaced by boundary and huge values, multi-byte characters
//! at every slicing position, invalid UTF-8, deep nesting — each delivered all-at-once and
//! byte-by-byte.  Every case runs in a worker process that may die; the case number is
//! announced first so that an abort (allocation failure), SIGSEGV (stack overflow) or
//! watchdog kill is attributed to the exact input.

use crate::alloc;
use crate::common::*;
use crate::scripted::{Plan, ScriptedReader};
use humsim::rng::Rng;
use serde_json::{json, Value};
use std::io::Write;
use std::sync::atomic::{AtomicBool, AtomicU64, Ordering};
use std::sync::{Mutex, OnceLock};

pub struct C03;

pub static ANNOUNCE: AtomicBool = AtomicBool::new(false);
static CASE_STARTED_MS: AtomicU64 = AtomicU64::new(0);
static LAST_PANIC: Mutex<String> = Mutex::new(String::new());

pub const TARGETS: [&str; 6] = ["request", "response", "frame", "wsmsg", "json", "config"];
pub const FAMILIES: [&str; 12] = ["trunc-eof", "trunc-reset", "subst", "bitflip", "deldup", "span-del", "lengths", "utf8-insert", "bad-utf8", "nesting", "short-exhaustive", "random"];

const HUGE: [&str; 14] = ["0", "1", "65535", "65536", "16777216", "2147483648", "4294967296", "1099511627776", "9223372036854775807", "9223372036854775808", "18446744073709551615", "18446744073709551616", "99999999999999999999", "-1"];
const HUGE_HEX: [&str; 8] = ["0", "1", "ffff", "10000", "7fffffff", "ffffffff", "7fffffffffffffff", "ffffffffffffffff"];

/// Seed messages of a tier: the fixed ones, and for the thorough tier 96 generated ones per
/// target (requests from the C02 generator, responses from the response-model generator,
/// random frame scripts, random JSON texts, random config files), each at most 500 bytes so that
/// the complete enumeration of every family stays affordable.
fn seeds_for(target: &str, tier: Tier) -> Vec<Vec<u8>> {
    let mut v = seeds(target);
    if tier == Tier::Thorough {
        v.extend(generated_seeds(target));
    }
    v
}

const GENERATED_SEEDS: usize = 96;

fn gen_json(rng: &mut Rng, depth: u32) -> String {
    let r = if depth >= 3 { rng.below(5) } else { rng.below(7) };
    match r {
        0 => ["null", "true", "false"][rng.usize_below(3)].to_string(),
        1 => ["0", "-0", "1", "-12", "3.25", "1e5", "1E-3", "2.5e+10", "123456789012", "0.000001"][rng.usize_below(10)].to_string(),
        2 | 3 => {
            let n = rng.range(0, 6);
            let mut t = String::from("\"");
            for _ in 0..n {
                t.push_str(["a", "Z", " ", "\\n", "\\\"", "\\\\", "\\u00e9", "\\ud83d\\ude00", "\u{e9}", "\u{4e2d}", "\\/", "\\t", "0"][rng.usize_below(13)]);
            }
            t.push('"');
            t
        }
        4 => "[]".to_string(),
        5 => {
            let n = rng.range(1, 4);
            let ws = if rng.chance(1, 3) { " " } else { "" };
            format!("[{}{}{}]", ws, (0..n).map(|_| gen_json(rng, depth + 1)).collect::<Vec<_>>().join(if rng.chance(1, 2) { ", " } else { "," }), ws)
        }
        _ => {
            let n = rng.range(0, 3);
            format!("{{{}}}", (0..n).map(|i| format!("\"k{}\":{}{}", i, if rng.chance(1, 3) { " " } else { "" }, gen_json(rng, depth + 1))).collect::<Vec<_>>().join(","))
        }
    }
}

fn gen_config(rng: &mut Rng) -> String {
    let mut t = String::new();
    if rng.chance(1, 3) {
        t.push_str("# generated\n\n");
    }
    t.push_str("server {\n");
    let val = |rng: &mut Rng| -> String {
        match rng.below(6) {
            0 => format!("\"{}\"", ["0.0.0.0", "a b", "/var/www", "x", "127.0.0.1:9000,127.0.0.1:9001", "caf\u{e9}"][rng.usize_below(6)]),
            1 => rng.range(0, 70000).to_string(),
            2 => ["true", "false"][rng.usize_below(2)].to_string(),
            3 => format!("{}{}", rng.range(1, 900), ["K", "M", "G"][rng.usize_below(3)]),
            4 => "\"\"".to_string(),
            _ => format!("\"{}\" # note", rng.range(0, 99)),
        }
    };
    let n = rng.range(1, 6);
    for _ in 0..n {
        match rng.below(6) {
            0 => t.push_str(&format!("  {} {}\n", ["address", "port", "threads", "timeout", "websocket"][rng.usize_below(5)], val(rng))),
            1 => {
                t.push_str(&format!("  {} {{\n", ["cache", "log", "blacklist", "plugins"][rng.usize_below(4)]));
                for _ in 0..rng.range(0, 3) {
                    t.push_str(&format!("    {} {}\n", ["size", "time", "level", "console", "mode", "file"][rng.usize_below(6)], val(rng)));
                }
                t.push_str("  }\n");
            }
            2 | 3 => {
                let pats = ["/*", "/api/*", "/a, /b/*", "/static/*,/s/*", "/x"];
                t.push_str(&format!("  route {} {{\n    {} {}\n  }}\n", pats[rng.usize_below(5)], ["directory", "file", "proxy", "redirect", "load_balancer_mode"][rng.usize_below(5)], val(rng)));
            }
            4 => {
                t.push_str(&format!("  host {} {{\n    route /* {{\n      directory {}\n    }}\n  }}\n", ["\"*.example.com\"", "localhost", "\"a\""][rng.usize_below(3)], val(rng)));
            }
            _ => t.push('\n'),
        }
    }
    t.push_str("}\n");
    t
}

fn generated_seeds(target: &str) -> Vec<Vec<u8>> {
    static CACHE: OnceLock<Mutex<std::collections::BTreeMap<String, Vec<Vec<u8>>>>> = OnceLock::new();
    let c = CACHE.get_or_init(|| Mutex::new(Default::default()));
    if let Some(v) = c.lock().unwrap().get(target) {
        return v.clone();
    }
    let mut rng = Rng::new(humsim::rng::mix(&[0xC03, fnv64(target.as_bytes())]));
    let mut out = Vec::new();
    let mut guard = 0;
    while out.len() < GENERATED_SEEDS && guard < 10_000 {
        guard += 1;
        let m: Vec<u8> = match target {
            "request" => crate::props::c02::gen_model(&mut rng, Tier::Quick).render(),
            "response" => crate::refs::http::gen_resp_model(&mut rng, 64).render(),
            "frame" | "wsmsg" => {
                let n = rng.range(1, 4);
                let mut b = Vec::new();
                for i in 0..n {
                    let opcode = [1u8, 2, 0, 9, 10, 8][rng.usize_below(6)];
                    let len = match rng.below(4) {
                        0 => 0,
                        1 => rng.range(1, 20),
                        2 => rng.range(120, 130),
                        _ => rng.range(126, 300),
                    } as usize;
                    let len = if opcode >= 8 { len.min(125) } else { len };
                    let mut f = crate::refs::ws::RFrame::new(opcode, rng.bytes(len));
                    f.fin = opcode >= 8 || rng.chance(2, 3);
                    if rng.chance(2, 3) {
                        f.mask = Some((rng.next_u64() as u32).to_be_bytes());
                    }
                    b.extend(f.encode());
                    if opcode == 8 && i + 1 < n {
                        break;
                    }
                }
                b
            }
            "json" => gen_json(&mut rng, 0).into_bytes(),
            "config" => gen_config(&mut rng).into_bytes(),
            _ => vec![],
        };
        if m.len() >= 2 && m.len() <= 500 {
            out.push(m);
        }
    }
    c.lock().unwrap().insert(target.to_string(), out.clone());
    out
}

fn seeds(target: &str) -> Vec<Vec<u8>> {
    match target {
        "request" => vec![
            b"GET / HTTP/1.1\r\nHost: a\r\n\r\n".to_vec(),
            b"POST /p/q?x=1&y=2 HTTP/1.1\r\nHost: example.com\r\nContent-Length: 5\r\nCookie: a=b; c=d\r\nX-Forwarded-For: 1.2.3.4, 5.6.7.8\r\nConnection: keep-alive\r\n\r\nhello".to_vec(),
            "PUT /caf\u{e9} HTTP/1.0\r\nX-Name: J\u{fc}rgen \u{4e2d}\r\nContent-Length: 3\r\n\r\nabc".as_bytes().to_vec(),
        ],
        "response" => vec![
            b"HTTP/1.1 200 OK\r\nContent-Length: 5\r\nContent-Type: text/plain\r\n\r\nhello".to_vec(),
            b"HTTP/1.1 200 OK\r\nTransfer-Encoding: chunked\r\nServer: x\r\n\r\n5\r\nhello\r\nA\r\n0123456789\r\n0\r\n\r\n".to_vec(),
            "HTTP/1.0 404 Not Found\r\nX-Why: gar\u{e7}on\r\nSet-Cookie: a=b; Path=/\r\n\r\n".as_bytes().to_vec(),
        ],
        "frame" | "wsmsg" => {
            let mut v = vec![
                vec![0x81, 0x05, b'h', b'e', b'l', b'l', b'o'],
                vec![0x82, 0x83, 1, 2, 3, 4, 0x10, 0x20, 0x30],
                vec![0x01, 0x02, b'a', b'b', 0x89, 0x01, b'p', 0x80, 0x01, b'c'],
                vec![0x88, 0x02, 0x03, 0xe8],
            ];
            let mut m = vec![0x82, 0x7e, 0x01, 0x00];
            m.extend((0..256u32).map(|i| i as u8));
            v.push(m);
            let mut l = vec![0x82, 0xff, 0, 0, 0, 0, 0, 0, 0, 0x14, 9, 9, 9, 9];
            l.extend((0..20u8).map(|i| i ^ 9));
            v.push(l);
            v
        }
        "json" => vec![
            "{\"a\":[1,2.5e3,true,null,\"x\u{e9}\\n\"],\"b\":{\"c\":\"d\"},\"e\":-0.0}".as_bytes().to_vec(),
            "[\"\\ud83d\\ude00\", \"\u{e9}\u{4e2d}\", 1e308, []]".as_bytes().to_vec(),
            b" [ ] ".to_vec(),
        ],
        "config" => vec![
            b"server {\n  address \"0.0.0.0\"\n  port 8080\n  threads 4\n  timeout 5\n\n  cache {\n    size 128M # comment\n    time 60\n  }\n\n  host \"*.example.com\" {\n    route /api/*, /v2/* {\n      proxy \"127.0.0.1:9000,127.0.0.1:9001\"\n      load_balancer_mode \"round-robin\"\n    }\n  }\n\n  route /* {\n    directory \"/var/www\"\n    websocket \"localhost:1234\"\n  }\n}\n".to_vec(),
            b"# leading comment\nserver {\n  log {\n    level \"info\"\n    console true\n  }\n  blacklist {\n    mode \"forbidden\"\n  }\n  route /x {\n    redirect \"/y\"\n  }\n  include \"@INC@\"\n}\n".to_vec(),
        ],
        _ => vec![],
    }
}

#[derive(Clone, Debug)]
pub struct Unit {
    pub target: &'static str,
    pub seed: usize,
    pub family: &'static str,
    pub part: usize,
    pub parts: usize,
}

const PART_CASES: usize = 1500;

fn n_cases(target: &str, seed: &[u8], family: &str, tier: Tier) -> usize {
    let n = seed.len();
    match family {
        "trunc-eof" | "trunc-reset" => n,
        "subst" => n * SUBST.len(),
        "bitflip" => n * 8,
        "deldup" => seed.iter().filter(|c| b"\r\n: ,;{}\"".contains(c)).count() * 2,
        "span-del" => n * SPAN_MAX,
        "lengths" => {
            if target == "frame" || target == "wsmsg" {
                FRAME_LENS.len()
            } else {
                digit_runs(seed).len() * (HUGE.len() + HUGE_HEX.len())
            }
        }
        "utf8-insert" => (n + 1) * 3,
        "bad-utf8" => (n + 1) * 2,
        "nesting" => {
            if target == "json" || target == "config" || target == "wsmsg" || target == "request" || target == "response" {
                8
            } else {
                0
            }
        }
        "short-exhaustive" => {
            if seed_is_first(target, seed) {
                short_strings(target).len()
            } else {
                0
            }
        }
        "random" => {
            if seed_is_first(target, seed) {
                if tier == Tier::Quick {
                    3000
                } else {
                    300_000
                }
            } else {
                0
            }
        }
        _ => 0,
    }
}

fn seed_is_first(target: &str, seed: &[u8]) -> bool {
    seeds(target).first().map(|s| s.as_slice() == seed).unwrap_or(false)
}

const SUBST: [u8; 16] = [b'\r', b'\n', b':', b' ', b'%', b'"', b'{', b'}', 0, 0x80, 0xff, b'0', b'9', b'-', b'\t', b'e'];
/// Longest contiguous span removed by the span-del family (every span of 1..=SPAN_MAX bytes at
/// every offset).
const SPAN_MAX: usize = 24;
const FRAME_LENS: [u64; 14] = [0, 1, 125, 126, 127, 65535, 65536, 1 << 20, 1 << 28, 1 << 31, 1 << 32, 1 << 40, (1 << 63) - 1, u64::MAX];

fn digit_runs(seed: &[u8]) -> Vec<(usize, usize)> {
    let mut v = Vec::new();
    let mut i = 0;
    while i < seed.len() {
        if seed[i].is_ascii_hexdigit() && (i == 0 || !seed[i - 1].is_ascii_alphanumeric()) {
            let mut j = i;
            while j < seed.len() && seed[j].is_ascii_hexdigit() {
                j += 1;
            }
            if j == seed.len() || !seed[j].is_ascii_alphanumeric() || (j - i >= 1 && b"KMG".contains(&seed[j])) {
                v.push((i, j));
            }
            i = j.max(i + 1);
        } else {
            i += 1;
        }
    }
    v
}

fn short_strings(target: &str) -> Vec<Vec<u8>> {
    static CACHE: OnceLock<Mutex<std::collections::BTreeMap<String, Vec<Vec<u8>>>>> = OnceLock::new();
    let c = CACHE.get_or_init(|| Mutex::new(Default::default()));
    if let Some(v) = c.lock().unwrap().get(target) {
        return v.clone();
    }
    let alpha: Vec<&[u8]> = match target {
        "request" => vec![b"GET", b" ", b"/", b"HTTP/1.1", b"\r\n", b"\n", b":", b"a", b"Content-Length", b"9", "\u{e9}".as_bytes()],
        "response" => vec![b"HTTP/1.1", b" ", b"200", b"OK", b"\r\n", b"\n", b":", b"a", b"Transfer-Encoding: chunked", b"Content-Length", b"9", "\u{e9}".as_bytes()],
        "frame" | "wsmsg" => vec![b"\x81", b"\x88", b"\x89", b"\x00", b"\x7e", b"\x7f", b"\xff", b"\x80", b"\x01"],
        "json" => vec![b"{", b"}", b"[", b"]", b",", b":", b"\"", b"\\", b"u", b"1", b"-", b".", b"e", b"t", b"n", b" "],
        "config" => vec![b"server {", b"\n", b"}", b"{", b"route ", b"host ", b"include ", b"\"", b"a", b" ", b"1", b"K", "\u{e9}".as_bytes(), b"#"],
        _ => vec![],
    };
    let maxlen = if alpha.len() > 12 { 3 } else { 4 };
    let mut out: Vec<Vec<u8>> = vec![vec![]];
    let mut frontier: Vec<Vec<u8>> = vec![vec![]];
    for _ in 0..maxlen {
        let mut next = Vec::new();
        for f in &frontier {
            for a in &alpha {
                let mut s = f.clone();
                s.extend_from_slice(a);
                next.push(s);
            }
        }
        out.extend(next.iter().cloned());
        frontier = next;
    }
    if target == "config" {
        // the same alphabet one token longer inside an open `server {` section, where values,
        // routes, hosts and includes are actually parsed
        let mut next = Vec::new();
        for f in &frontier {
            for a in &alpha {
                let mut s = f.clone();
                s.extend_from_slice(a);
                next.push(s);
            }
        }
        let inner: Vec<Vec<u8>> = out.iter().chain(next.iter()).map(|t| [b"server {\n".as_slice(), t.as_slice()].concat()).collect();
        out.extend(inner);
    }
    c.lock().unwrap().insert(target.to_string(), out.clone());
    out
}

pub fn units(tier: Tier) -> Vec<Unit> {
    let mut v = Vec::new();
    for t in TARGETS {
        for (si, s) in seeds_for(t, tier).iter().enumerate() {
            for f in FAMILIES {
                let n = n_cases(t, s, f, tier);
                if n == 0 {
                    continue;
                }
                let parts = (n + PART_CASES - 1) / PART_CASES;
                for p in 0..parts {
                    v.push(Unit { target: t, seed: si, family: f, part: p, parts });
                }
            }
        }
    }
    v
}

fn splice(seed: &[u8], a: usize, b: usize, with: &[u8]) -> Vec<u8> {
    let mut v = seed[..a].to_vec();
    v.extend_from_slice(with);
    v.extend_from_slice(&seed[b..]);
    v
}

/// The k-th case of a family: (bytes, end-of-stream error kind).
fn make_case(target: &str, seed: &[u8], family: &str, k: usize, rng_seed: u64) -> (Vec<u8>, Option<std::io::ErrorKind>) {
    let n = seed.len();
    match family {
        "trunc-eof" => (seed[..k.min(n)].to_vec(), None),
        "trunc-reset" => (seed[..k.min(n)].to_vec(), Some(std::io::ErrorKind::ConnectionReset)),
        "subst" => {
            let (pos, which) = (k / SUBST.len(), k % SUBST.len());
            let mut v = seed.to_vec();
            if pos < n {
                v[pos] = SUBST[which];
            }
            (v, None)
        }
        "bitflip" => {
            let mut v = seed.to_vec();
            if k / 8 < n {
                v[k / 8] ^= 1 << (k % 8);
            }
            (v, None)
        }
        "deldup" => {
            let idxs: Vec<usize> = seed.iter().enumerate().filter(|(_, c)| b"\r\n: ,;{}\"".contains(c)).map(|(i, _)| i).collect();
            let i = idxs.get(k / 2).copied().unwrap_or(0);
            if k % 2 == 0 {
                (splice(seed, i, (i + 1).min(n), b""), None)
            } else {
                (splice(seed, i, i, &seed[i..(i + 1).min(n)]), None)
            }
        }
        "span-del" => {
            let (pos, l) = (k / SPAN_MAX, k % SPAN_MAX + 1);
            (splice(seed, pos.min(n), (pos + l).min(n), b""), None)
        }
        "lengths" => {
            if target == "frame" || target == "wsmsg" {
                let len = FRAME_LENS[k % FRAME_LENS.len()];
                let mut v = vec![seed[0]];
                let m = seed.get(1).copied().unwrap_or(0) & 0x80;
                if len < 126 {
                    v.push(m | len as u8);
                } else if len < 65536 {
                    v.push(m | 126);
                    v.extend((len as u16).to_be_bytes());
                } else {
                    v.push(m | 127);
                    v.extend(len.to_be_bytes());
                }
                // a little data follows, never the claimed amount
                v.extend_from_slice(&[1, 2, 3, 4, 5, 6, 7, 8, 9, 10]);
                (v, None)
            } else {
                let runs = digit_runs(seed);
                let per = HUGE.len() + HUGE_HEX.len();
                let (a, b) = runs.get(k / per).copied().unwrap_or((0, 0));
                let w = k % per;
                let with = if w < HUGE.len() { HUGE[w] } else { HUGE_HEX[w - HUGE.len()] };
                (splice(seed, a, b, with.as_bytes()), None)
            }
        }
        "utf8-insert" => {
            let pos = (k / 3).min(n);
            let ch: &[u8] = ["\u{e9}".as_bytes(), "\u{4e2d}".as_bytes(), "\u{1F600}".as_bytes()][k % 3];
            (splice(seed, pos, pos, ch), None)
        }
        "bad-utf8" => {
            let pos = (k / 2).min(n);
            (splice(seed, pos, pos, if k % 2 == 0 { &[0xff] } else { &[0xc3] }), None)
        }
        "nesting" => {
            let depth = [10usize, 200, 257, 1000, 5000, 20_000, 50_000, 100_000][k % 8];
            if target == "wsmsg" {
                // the WebSocket analogue of nesting: a long run of empty control frames in front of
                // one data frame (a reader that recurses per control frame runs out of stack)
                let n = [1000usize, 1000, 30_000, 30_000, 30_000, 30_000, 100_000, 100_000][k % 8];
                let op = if k % 8 == 4 || k % 8 == 5 { 0x89u8 } else { 0x8Au8 };
                let mut v = Vec::with_capacity(2 * n + 8);
                for _ in 0..n {
                    v.extend([op, 0x00]);
                }
                v.extend(b"\x81\x05hello");
                return (v, None);
            }
            if target == "request" || target == "response" {
                // the HTTP analogue: a long run of empty lines (CRLF, or bare LF) in front of an
                // otherwise ordinary message (a parser that skips them by recursion runs out of stack)
                let n = [10usize, 1000, 100_000, 1_000_000, 10, 1000, 100_000, 1_000_000][k % 8];
                let mut v = Vec::new();
                for _ in 0..n {
                    v.extend(if k % 8 < 4 { &b"\r\n"[..] } else { &b"\n"[..] });
                }
                v.extend(seed);
                return (v, None);
            }
            if target == "json" {
                let open = if k % 2 == 0 { "[" } else { "{\"a\":" };
                let close = if k % 2 == 0 { "]" } else { "}" };
                let mut s = open.repeat(depth);
                s.push('1');
                s.push_str(&close.repeat(depth));
                (s.into_bytes(), None)
            } else {
                let mut s = String::from("server {\n");
                for i in 0..depth {
                    s.push_str(if i % 3 == 0 { "route /a {\n" } else if i % 3 == 1 { "host x {\n" } else { "sec {\n" });
                }
                s.push_str("port 1\n");
                for _ in 0..depth {
                    s.push_str("}\n");
                }
                s.push_str("}\n");
                (s.into_bytes(), None)
            }
        }
        "short-exhaustive" => (short_strings(target).get(k).cloned().unwrap_or_default(), None),
        _ => {
            // random: random bytes, or random edits of the seed
            let mut rng = Rng::new(humsim::rng::mix(&[rng_seed, k as u64]));
            if rng.chance(1, 3) {
                let l = rng.usize_below(64);
                (rng.bytes(l), None)
            } else {
                let mut v = seed.to_vec();
                for _ in 0..rng.range(1, 4) {
                    if v.is_empty() {
                        break;
                    }
                    let p = rng.usize_below(v.len());
                    match rng.below(4) {
                        0 => v[p] = rng.next_u64() as u8,
                        1 => {
                            v.remove(p);
                        }
                        2 => v.insert(p, SUBST[rng.usize_below(SUBST.len())]),
                        _ => v.truncate(p),
                    }
                }
                (v, None)
            }
        }
    }
}

/// One time base for the case-start stamps and the watchdog.
fn process_t0() -> &'static std::time::Instant {
    static T0: OnceLock<std::time::Instant> = OnceLock::new();
    T0.get_or_init(std::time::Instant::now)
}

fn now_ms() -> u64 {
    process_t0().elapsed().as_millis() as u64 + 1
}

fn start_watchdog() {
    static STARTED: AtomicBool = AtomicBool::new(false);
    let _ = process_t0();
    if STARTED.swap(true, Ordering::SeqCst) {
        return;
    }
    std::thread::Builder::new()
        .name("c03-watchdog".into())
        .spawn(move || loop {
            std::thread::sleep(std::time::Duration::from_millis(500));
            let s = CASE_STARTED_MS.load(Ordering::SeqCst);
            if s != 0 && now_ms() > s + 10_000 {
                let m = b"WATCHDOG-TIMEOUT case ran for more than 10 s\n";
                unsafe {
                    libc::write(2, m.as_ptr() as *const libc::c_void, m.len());
                    libc::abort();
                }
            }
        })
        .ok();
}

fn mark_case_start() {
    let _ = process_t0();
}

#[derive(Debug)]
enum Outcome {
    Returned,
    Panicked(String),
    NoTermination,
}

/// Run one parser call on `data` delivered per `plan`; returns the outcome and bytes supplied.
fn run_target(target: &str, data: &[u8], plan: Plan, scratch: &str) -> Outcome {
    LAST_PANIC.lock().unwrap().clear();
    let exhausted = std::cell::Cell::new(false);
    let r = std::panic::catch_unwind(std::panic::AssertUnwindSafe(|| match target {
        "request" => {
            let mut rd = ScriptedReader::new(data, plan);
            let _ = humphrey::http::Request::from_stream(&mut rd, "10.0.0.1:80".parse().unwrap());
            exhausted.set(rd.exhausted);
        }
        "response" => {
            let mut rd = ScriptedReader::new(data, plan);
            let _ = humphrey::http::Response::from_stream(&mut rd);
            exhausted.set(rd.exhausted);
        }
        "frame" => {
            let mut rd = ScriptedReader::new(data, plan);
            let _ = humphrey_ws::verif::decode(&mut rd);
            exhausted.set(rd.exhausted);
        }
        "json" => {
            if let Ok(s) = std::str::from_utf8(data) {
                let _ = humphrey_json::Value::parse(s);
            }
        }
        "config" => {
            if let Ok(s) = std::str::from_utf8(data) {
                let s = s.replace("@INC@", &format!("{}/inc.conf", scratch));
                let _ = humphrey_server::config::tree::parse_conf(&s, "case.conf");
            }
        }
        _ => {}
    }));
    match r {
        Err(_) => Outcome::Panicked(LAST_PANIC.lock().unwrap().clone()),
        Ok(()) if exhausted.get() => Outcome::NoTermination,
        Ok(()) => Outcome::Returned,
    }
}

/// WebSocket message readers need a `Stream`: a simulated socket delivers the bytes.
fn run_wsmsg(data: &[u8], bytewise: bool, reset: bool, nonblocking: bool) -> (Outcome, u64) {
    use humsim::sim;
    let data = data.to_vec();
    let mut p = SimParams::basic(7, "rr");
    p.max_decisions = if data.len() > 10_000 { 4_000_000 } else { 200_000 };
    if bytewise {
        p.default_seg = Some("onebyte".into());
    }
    let outcome = sim::run(p.to_config(), move || {
        let addr: humsim::net::SocketAddr = "127.0.0.1:7000".parse().unwrap();
        let l = humsim::net::TcpListener::bind(addr).unwrap();
        let d2 = data.clone();
        let c = humsim::thread::spawn(move || {
            let mut s = humsim::net::TcpStream::connect(addr).unwrap();
            let _ = s.write_all(&d2);
            // drain what the server writes back (pongs, close echoes), then end
            let mut log = crate::simhttp::RecvLog::new();
            crate::simhttp::read_some(&mut s, &mut log, std::time::Duration::from_millis(20));
            if reset {
                s.sim_reset();
            }
        });
        let (s, _) = l.accept().unwrap();
        let mut ws = humphrey_ws::stream::WebsocketStream::new(humphrey::stream::Stream::Tcp(s));
        for _ in 0..6 {
            if nonblocking {
                match ws.recv_nonblocking() {
                    humphrey_ws::restion::Restion::Err(_) => break,
                    humphrey_ws::restion::Restion::None => humsim::thread::sleep(std::time::Duration::from_millis(5)),
                    humphrey_ws::restion::Restion::Ok(_) => {}
                }
            } else if ws.recv().is_err() {
                break;
            }
        }
        drop(ws);
        let _ = c.join();
    });
    let o = match outcome.status {
        sim::EndStatus::Completed => {
            if let Some(p) = outcome.panics.first() {
                Outcome::Panicked(format!("{} at {}", p.message, p.location))
            } else {
                Outcome::Returned
            }
        }
        sim::EndStatus::DriverPanicked => Outcome::Panicked(outcome.panics.first().map(|p| format!("{} at {}", p.message, p.location)).unwrap_or_default()),
        _ => Outcome::NoTermination,
    };
    (o, outcome.decisions)
}

fn panic_site(msg: &str) -> String {
    // keep "file.rs:line" of the last path component, drop the message
    if let Some(at) = msg.rfind(" at ") {
        let loc = &msg[at + 4..];
        let file = loc.rsplit('/').next().unwrap_or(loc);
        let mut parts = file.split(':');
        return format!("{}:{}", parts.next().unwrap_or(""), parts.next().unwrap_or(""));
    }
    "unknown-site".into()
}

impl Prop for C03 {
    fn id(&self) -> &'static str {
        "C03"
    }
    fn level(&self) -> &'static str {
        "fault_enumeration"
    }
    fn isolated(&self) -> bool {
        true
    }
    fn runs(&self, tier: Tier) -> u64 {
        units(tier).len() as u64
    }
    fn exhaustive(&self, _tier: Tier) -> bool {
        false
    }
    fn rule(&self) -> &'static str {
        "Per target (HTTP request parser, HTTP response parser, WebSocket frame decoder, WebSocket message reader blocking and non-blocking over a simulated socket, JSON parser, config parser incl. include files) and per seed message (2..6 fixed ones per target; the thorough tier adds 96 generated ones per target: requests, responses, frame scripts, JSON texts and config files of at most 500 bytes), the fault families are enumerated completely: EOF at EVERY offset, ConnectionReset at every offset, every single-byte substitution from a 16-symbol protocol alphabet at every offset, every single bit flip, each CR/LF/colon/space/comma/brace/quote deleted and doubled, every contiguous span of 1..24 bytes deleted at every offset, every number in the message replaced by 22 boundary and huge decimal/hex values (frames: 14 claimed lengths up to 2^64-1 with 10 bytes of data), a 2/3/4-byte UTF-8 character and an invalid byte inserted at every position, nesting to depth 100000 (WebSocket messages: runs of 1000..100000 empty ping or pong frames in front of a data frame; HTTP requests and responses: runs of 10..1000000 empty lines, CRLF or bare LF, in front of the message), all strings of up to 3-4 tokens over the protocol alphabets (config: additionally all strings of up to 4 tokens inside an open `server {` section), plus seeded random edits; each case delivered all-at-once and one byte per read. Distinct non-trivial = distinct (target, seed, family, case) that differs from the valid seed; evaluations = parser calls."
    }
    fn assumptions(&self) -> Vec<String> {
        vec![
            "Value::parse(&str) has no I/O seam: its part is plain input generation (labelled json in the counters)".into(),
            "memory bound: peak live heap during one parser call <= 64 KiB + 8 x bytes supplied (512 x for the tree-building JSON and config parsers, whose values legitimately expand the text by a constant factor); a single request above 256 MiB is refused by the harness allocator, which aborts the worker exactly as real exhaustion would".into(),
            "each batch runs on a thread with a 2 MiB stack (what a pool worker has); a 10 s wall-clock watchdog catches loops that do not consume input".into(),
            "process death is attributed through the case number announced before the case starts".into(),
        ]
    }
    fn expected_counters(&self) -> Vec<&'static str> {
        vec!["c03.request", "c03.response", "c03.frame", "c03.wsmsg", "c03.json", "c03.config", "c03.family.trunc-eof", "c03.family.trunc-reset", "c03.family.lengths", "c03.family.span-del", "c03.family.utf8-insert", "c03.family.nesting", "c03.bytewise_deliveries", "c03.parser_returned_ok", "c03.parser_returned_err_or_ok"]
    }
    fn real_vs_stub(&self) -> (Vec<&'static str>, Vec<&'static str>) {
        (
            vec!["Request::from_stream", "Response::from_stream (+ parse_chunk)", "Frame::from_stream", "Message::from_stream / from_stream_nonblocking via WebsocketStream::recv / recv_nonblocking", "Value::parse", "parse_conf + include (real files)"],
            vec!["byte sources: scripted reader (EOF/reset/read sizes), humsim socket for the message reader"],
        )
    }

    fn generate(&self, seed: u64, idx: u64, tier: Tier) -> Value {
        static U: OnceLock<Mutex<std::collections::BTreeMap<&'static str, Vec<Unit>>>> = OnceLock::new();
        let m = U.get_or_init(|| Mutex::new(Default::default()));
        let mut g = m.lock().unwrap();
        let us = g.entry(tier.name()).or_insert_with(|| units(tier));
        let u = &us[(idx as usize) % us.len()];
        json!({"target": u.target, "seed_msg": u.seed, "family": u.family, "part": u.part, "parts": u.parts, "tier": tier.name(), "rng": run_seed(seed, "C03", idx), "only_case": Value::Null})
    }

    fn execute(&self, scn: &Value) -> RunResult {
        let mut rr = RunResult::default();
        let target = TARGETS.iter().find(|t| scn["target"] == **t).copied().unwrap_or("request");
        let family = FAMILIES.iter().find(|t| scn["family"] == **t).copied().unwrap_or("trunc-eof");
        let tier = if scn["tier"] == "thorough" { Tier::Thorough } else { Tier::Quick };
        let all = seeds_for(target, tier);
        let seed = all[(scn["seed_msg"].as_u64().unwrap_or(0) as usize) % all.len()].clone();
        let total = n_cases(target, &seed, family, tier);
        let part = scn["part"].as_u64().unwrap_or(0) as usize;
        let only = scn["only_case"].as_u64();
        let rng_seed = scn["rng"].as_u64().unwrap_or(1);
        let (lo, hi) = match only {
            Some(k) => (k as usize / 2, k as usize / 2 + 1),
            None => (part * PART_CASES, ((part + 1) * PART_CASES).min(total)),
        };
        start_watchdog();
        mark_case_start();
        std::panic::set_hook(Box::new(|info| {
            let msg = if let Some(s) = info.payload().downcast_ref::<&str>() { s.to_string() } else if let Some(s) = info.payload().downcast_ref::<String>() { s.clone() } else { String::new() };
            let loc = info.location().map(|l| format!("{}:{}:{}", l.file(), l.line(), l.column())).unwrap_or_default();
            if humsim::sim::in_sim() {
                humsim::sim::record_panic(msg, loc);
            } else {
                *LAST_PANIC.lock().unwrap() = format!("{} at {}", msg, loc);
            }
        }));
        alloc::CEILING.store(256 << 20, Ordering::SeqCst);
        static SCRATCH_N: AtomicU64 = AtomicU64::new(0);
        let scratch = format!("/verif/target/scratch/c03-{}-{}", std::process::id(), SCRATCH_N.fetch_add(1, Ordering::SeqCst));
        if target == "config" {
            let _ = std::fs::create_dir_all(&scratch);
            // an include file that includes itself, and a sane one
            let _ = std::fs::write(format!("{}/inc.conf", scratch), format!("threads 2\ninclude \"{}/inc.conf\"\n", scratch));
        }
        let results: std::sync::Arc<Mutex<RunResult>> = std::sync::Arc::new(Mutex::new(RunResult::default()));
        let r2 = results.clone();
        let scratch2 = scratch.clone();
        let seed2 = seed.clone();
        let body = move || {
            let mut rr = RunResult::default();
            for k in lo..hi {
                let (data, end_err) = make_case(target, &seed2, family, k, rng_seed);
                for (di, delivery) in ["whole", "bytewise"].iter().enumerate() {
                    let case_no = (k * 2 + di) as u64;
                    if let Some(o) = only {
                        if o != case_no {
                            continue;
                        }
                    }
                    if (target == "json" || target == "config") && di == 1 {
                        continue; // no reader: one delivery only
                    }
                    if ANNOUNCE.load(Ordering::Relaxed) {
                        let so = std::io::stdout();
                        let mut l = so.lock();
                        let _ = writeln!(l, "C {}", case_no);
                        let _ = l.flush();
                    }
                    rr.evals += 1;
                    rr.count(&format!("c03.{}", target), 1);
                    rr.count(&format!("c03.family.{}", family), 1);
                    if di == 1 {
                        rr.count("c03.bytewise_deliveries", 1);
                    }
                    CASE_STARTED_MS.store(now_ms(), Ordering::SeqCst);
                    let base = alloc::begin_case();
                    let (outcome, slack) = if target == "wsmsg" {
                        let (o, _) = run_wsmsg(&data, di == 1, end_err.is_some(), k % 2 == 1);
                        // (the simulated network itself keeps a queue entry per segment: with one byte
                        // per segment that is harness memory proportional to the input)
                        (o, 512 * 1024 + 128 * data.len())
                    } else {
                        let mut plan = if di == 0 { Plan::whole() } else { Plan::bytewise() };
                        plan.end_error = end_err;
                        (run_target(target, &data, plan, &scratch2), 64 * 1024)
                    };
                    let (peak, largest) = alloc::end_case(base);
                    CASE_STARTED_MS.store(0, Ordering::SeqCst);
                    let what = format!("{} seed {} family {} case {} ({}): input {}", target, 0, family, case_no, delivery, show_bytes(&data[..data.len().min(120)]));
                    match outcome {
                        Outcome::Returned => {
                            rr.count("c03.parser_returned_err_or_ok", 1);
                        }
                        Outcome::Panicked(m) => {
                            rr.violate("C03/R1", format!("panic:{}:{}", target, panic_site(&m)), format!("panicked ({}) on {}", m, what));
                        }
                        Outcome::NoTermination => {
                            rr.violate("C03/R2", format!("no-termination:{}:{}", target, feature_of(target, family, &data)), format!("did not terminate within the read/step budget on {}", what));
                        }
                    }
                    let mult = if target == "json" || target == "config" { 512 } else { 8 };
                    if peak > slack + mult * data.len() {
                        rr.violate("C03/R3", format!("allocation-exceeds-bound:{}:{}", target, feature_of(target, family, &data)), format!("peak heap {} bytes (largest single request {}) for {} bytes supplied on {}", peak, largest, data.len(), what));
                    }
                    if data != seed2 {
                        rr.shapes.push(fnv64(format!("{}:{}:{}", target, family, case_no).as_bytes()) ^ fnv64(&data));
                    }
                }
            }
            *r2.lock().unwrap() = rr;
        };
        // a pool worker's stack
        let h = std::thread::Builder::new().stack_size(2 * 1024 * 1024).name("c03-cases".into()).spawn(body);
        match h {
            Ok(h) => {
                let _ = h.join();
            }
            Err(e) => rr.harness_error = Some(format!("cannot spawn case thread: {}", e)),
        }
        alloc::CEILING.store(0, Ordering::SeqCst);
        if target == "config" {
            let _ = std::fs::remove_dir_all(&scratch);
        }
        let got = results.lock().unwrap().clone();
        rr.violations = got.violations;
        rr.evals = got.evals;
        rr.counters = got.counters;
        rr.shapes = got.shapes;
        rr.count("c03.parser_returned_ok", rr.counters.get("c03.parser_returned_err_or_ok").copied().unwrap_or(0));
        rr.sample = Some(json!({"target": target, "family": family, "seed_message": show_bytes(&seed[..seed.len().min(160)]), "cases": format!("{}..{} x {{whole, bytewise}}", lo, hi)}));
        rr.trace_hash = fnv64(format!("{:?}{}", rr.violations, rr.evals).as_bytes());
        rr
    }
}

/// What about this case is likely responsible (used in signatures instead of the family,
/// so one root cause is one class): rebuilt deterministically from the scenario.
pub fn case_feature(scn: &Value) -> String {
    let target = TARGETS.iter().find(|t| scn["target"] == **t).copied().unwrap_or("request");
    let family = FAMILIES.iter().find(|t| scn["family"] == **t).copied().unwrap_or("trunc-eof");
    let all = seeds_for(target, if scn["tier"] == "thorough" { Tier::Thorough } else { Tier::Quick });
    let seed = all[(scn["seed_msg"].as_u64().unwrap_or(0) as usize) % all.len()].clone();
    let k = match scn["only_case"].as_u64() {
        Some(k) => k as usize / 2,
        None => return family.to_string(),
    };
    let (data, _) = make_case(target, &seed, family, k, scn["rng"].as_u64().unwrap_or(1));
    feature_of(target, family, &data)
}

pub fn feature_of(target: &str, family: &str, data: &[u8]) -> String {
    let text = String::from_utf8_lossy(data).to_ascii_lowercase();
    match target {
        "config" => {
            if text.contains("include \"") {
                "include".into()
            } else if family == "nesting" {
                "nested-sections".into()
            } else {
                "other".into()
            }
        }
        "json" => {
            if family == "nesting" {
                "nesting".into()
            } else {
                "other".into()
            }
        }
        "request" => {
            if text.contains("content-length") {
                "content-length".into()
            } else {
                "other".into()
            }
        }
        "response" => {
            if text.contains("chunked") {
                "chunk-size".into()
            } else if text.contains("content-length") {
                "content-length".into()
            } else {
                "other".into()
            }
        }
        _ => "frame-length".into(),
    }
}

/// Classify a dead worker from its exit status and stderr tail.
pub fn death_signature(status: &str, stderr_tail: &str) -> String {
    if stderr_tail.contains("ALLOC-REFUSED") {
        "process-aborted:allocation-of-claimed-length".into()
    } else if stderr_tail.contains("WATCHDOG-TIMEOUT") {
        "no-termination:watchdog".into()
    } else if stderr_tail.contains("overflowed its stack") {
        "stack-overflow".into()
    } else if stderr_tail.contains("memory allocation of") {
        "process-aborted:allocation-failed".into()
    } else {
        format!("process-died:{}", status.replace(' ', "-"))
    }
}
