#!/usr/bin/env python3
import json,glob,sys,subprocess
sig=sys.argv[1]; prop=sys.argv[2] if len(sys.argv)>2 else 'C01'
for f in glob.glob(f'/verif/replays/{prop}-*.json'):
    d=json.load(open(f))
    if d['sig']==sig:
        s=json.loads(json.dumps(d['scenario']))
        def trim(o):
            if isinstance(o,dict):
                for k,v in o.items():
                    if isinstance(v,str) and len(v)>80: o[k]='<%d bytes>'%len(v)
                    elif isinstance(v,list) and len(json.dumps(v))>600: o[k]='<list of %d, %d chars>'%(len(v),len(json.dumps(v)))
                    else: trim(v)
            elif isinstance(o,list):
                for x in o: trim(x)
        trim(s)
        print(f); print(json.dumps(s)); print(d['detail'][:2000])
        d['scenario']['sim']['trace']=True
        json.dump(d,open('/tmp/r1.json','w'))
        if len(sys.argv)>3:
            out=subprocess.run(['/verif/target/release/hv','replay','/tmp/r1.json'],capture_output=True,text=True)
            print(out.stdout[-1500:]); print('\n'.join(out.stderr.splitlines()[-int(sys.argv[3]):]))
