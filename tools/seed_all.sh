#!/bin/bash
# Re-evaluates every stored seeded change with the quick tier of the check of the property it
# breaks and writes seeded/RESULTS.md.  /repo is restored after each one.
cd /verif || exit 2
export SEED_EVAL_NO_REBUILD=1
trap 'cd /verif && ./hv_run list >/dev/null 2>&1' EXIT
out=seeded/RESULTS.md
echo "| seeded change | property | quick check | violation classes (first few) |" > $out
echo "|---|---|---|---|" >> $out
missed=0
for d in seeded/*/; do
  id=$(basename $d)
  # (the check that sees the change: normally the one of the property it breaks)
  prop=$(python3 -c "import json;m=json.load(open('$d/meta.json'));print(m.get('evaluate_with') or m['breaks_property'])")
  line=$(tools/seed_eval.sh $d/patch.diff $prop | tail -1)
  code=$(echo "$line" | sed -n 's/.*exit=\([0-9]*\).*/\1/p')
  classes=$(echo "$line" | sed 's/.*violation-classes: //' | cut -c1-220)
  if [ "$code" = "1" ]; then res="caught"; else res="NOT caught (exit $code)"; missed=$((missed+1)); fi
  echo "| $id | $prop | $res | $classes |" >> $out
  echo "$id $prop $res"
done
echo "" >> $out
echo "not caught: $missed" >> $out
echo "not caught: $missed"
