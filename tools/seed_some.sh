#!/bin/bash
# usage: tools/seed_some.sh <PROP>...   Re-evaluates the stored seeded changes of the named
# properties (like seed_all.sh, which does all of them) and rewrites their lines in seeded/RESULTS.md.
cd /verif || exit 2
export SEED_EVAL_NO_REBUILD=1
trap 'cd /verif && ./hv_run list >/dev/null 2>&1' EXIT
out=seeded/RESULTS.md
missed=0
for p in "$@"; do
  for d in seeded/$p-*/; do
    id=$(basename $d)
    prop=$(python3 -c "import json;m=json.load(open('$d/meta.json'));print(m.get('evaluate_with') or m['breaks_property'])")
    line=$(tools/seed_eval.sh $d/patch.diff $prop | tail -1)
    code=$(echo "$line" | sed -n 's/.*exit=\([0-9]*\).*/\1/p')
    classes=$(echo "$line" | sed 's/.*violation-classes: //' | cut -c1-220)
    if [ "$code" = "1" ]; then res="caught"; else res="NOT caught (exit $code)"; missed=$((missed+1)); fi
    grep -v "^| $id |" $out > $out.tmp; mv $out.tmp $out
    sed -i "/^not caught:/d" $out
    echo "| $id | $prop | $res | $classes |" >> $out
    echo "$id $prop $res"
  done
done
echo "not caught in this partial run: $missed"
