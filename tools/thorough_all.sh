#!/bin/bash
# Runs the thorough tier of every claimed check from a frozen copy of the two harness binaries
# (so the sources can be edited meanwhile).  Logs under /verif/target/thorough/.
cd /verif || exit 2
./hv_run list >/dev/null || exit 2
mkdir -p target/frozen target/thorough
cp target/release/hv target/frozen/hv
cp tk/target/release/hvtk target/frozen/hvtk
export HV_TK_EXE=/verif/target/frozen/hvtk
for id in ${@:-C01 C02 C03 C04 C07 C08 C09 C10 C11 C12 C16 C17 C19 C20}; do
  s=$(date +%s)
  ./target/frozen/hv check $id --tier thorough > target/thorough/$id.log 2>&1
  rc=$?
  echo "$id exit=$rc wall=$(( $(date +%s) - s ))s $(grep -c VIOLATION target/thorough/$id.log) violations" | tee -a target/thorough/summary.txt
done
