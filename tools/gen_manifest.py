#!/usr/bin/env python3
"""Regenerates /verif/MANIFEST.json from the table below (kept in one place so the
manifest stays valid and current as checks are added)."""
import json, subprocess

CLAIMED = {
    "C01": dict(
        level="exploration", design="§6 C01",
        technique="deterministic simulation: real App::run + ThreadPool on humsim's in-memory TCP and virtual clock, reference HTTP clients with explicit stream segmentation, seeded schedules and network faults, reference connection model as oracle",
        text="Seeded search over application configurations, client scripts (1..8 clients, 1..6 requests each over methods x targets x versions x Connection x bodies x malformed kinds x idle gaps), explicit segmentations of the byte stream (one byte per segment up to several requests per segment), lock-step and pipelined pacing, endings (close/half-close/RST/truncation), short reads/writes, slow readers, latency, and thread schedules. Oracle: strict response-stream grammar, count/order, version/Date/Server/CORS/Content-Length/body, keep-alive disposition and self-delimitation, 400/408 mapping with virtual-time lower bound, panic isolation, handler log = requests sent. Sampling: a clean batch is evidence, not proof. Later additions: a 150 000-byte response route, a CORS configuration whose list entries are substrings of earlier ones, the Date window anchored per request at the segment carrying its last byte, short writes in the tokio transport. Also: readers that stall for longer than the connection timeout while a large response is being written. And: error handlers that return empty pages.",
        note="Trusted: humsim scheduler and TCP model (reliable ordered byte stream; close with unread data modelled as orderly FIN; server-side receive window >= one client script); the reference HTTP grammar; both runtimes: the threaded one under the humsim thread scheduler, the tokio one (twin phase C01T, engine humsim-tk) on a paused current_thread runtime over humsim::tokio_net."),
    "C02": dict(
        level="exploration", design="§6 C02",
        technique="deterministic simulation of the byte source: Request::from_stream over a scripted reader whose read-size plan (every split point, bytewise, random chunkings, EINTR) is the schedule; reference request model as oracle; serialise-parse round trip",
        text="Generated well-formed request models (methods, paths, queries, 0..60 headers with repeated names in random case, UTF-8 values, Cookie and X-Forwarded-For lists, bodies to 64 KiB, lines over 8 KiB) parsed under every two-chunk split of messages <= 2 KiB plus bytewise/random/EINTR plans; parsed fields must equal the model under every plan and survive serialise+parse. Split points of each sampled message are enumerated; models are sampled. Later additions: the colon of a header line followed by one space / nothing / a tab / two spaces, header names in random per-letter case, get_cookie looked up for every name, suffix, embedded k= and an absent name on cookie lists with overlapping names and values. Also: X-Forwarded-For chains of 31..200 entries. Also: repeated addresses in X-Forwarded-For.",
        note="Trusted: the reference model/renderer; sync parser and (twin phase C02T) the async parser over a scripted AsyncRead; at most one Cookie / X-Forwarded-For field per request."),
    "C03": dict(
        level="fault_enumeration", design="§6 C03",
        technique="fault injection at the parsers' byte sources (scripted reader, simulated socket, real include files): EOF/reset at every offset, every single-byte substitution and bit flip, delimiter deletion/doubling, boundary and huge length fields, UTF-8 at every slicing position, deep nesting; isolated worker processes with a counting allocator, 2 MiB stacks, read budgets and a watchdog",
        text="For each target (request, response, frame, WebSocket message blocking/non-blocking, JSON, config+include) and each seed message every truncation offset and every single-byte mutant of the families is enumerated and delivered whole and bytewise; oracle: returns Ok/Err (no panic, abort, SIGSEGV), terminates within a read budget/watchdog, peak heap <= 64 KiB + 8x (512x for tree-building parsers) the bytes supplied. Seeds and multi-edit mutants are sampled. Later additions: every contiguous span of 1..24 bytes deleted at every offset; 96 generated seed messages per target in the thorough tier. Also: runs of 1000..100000 empty control frames in front of a data frame. And runs of up to 1000000 empty lines in front of HTTP messages.",
        note="Trusted: the counting allocator and the announce protocol that attributes a dead worker to a case; Value::parse has no I/O seam (its share is plain input generation); the 256 MiB single-allocation ceiling stands in for real memory exhaustion."),
    "C09": dict(
        level="fault_enumeration", design="§6 C09",
        technique="deterministic simulation with network fault injection: real proxy_request / proxy_handler against a scripted upstream on humsim's TCP (cut at every byte by FIN and RST, garbage, refuse, black-holed SYN, silence, accept-close, stall, late-stall, trickle), virtual-time deadline, real EqMutex<LoadBalancer> under seeded schedules",
        text="For each generated valid upstream response (39 status codes; Content-Length / chunked / close-delimited / body-less) every byte offset is cut once by FIN and once by RST; plus the other fault behaviours and valid responses from closing and keep-alive upstreams, through proxy_request and through the server's proxy_handler. Oracle: returns within timeout + 100 ms + 10% of virtual time, never panics, valid response relayed (status, header multiset, body; chunked re-expressed as Content-Length), any fault gives 502, the upstream receives the request unchanged except stripped prefix and one added X-Forwarded-For, round-robin strictly in lock order. Later additions: late-stall upstreams; route patterns /api/*, /*, /a/b/*, /api* with the literal prefix once, twice, three times, alone or again later in the path; 1..8 concurrent requests through the real proxy_handler with uses per target compared with strict rotation; framing header spellings as in C07. Also: a slow-reader upstream (16-byte receive window drained every 30..90% of the timeout, or never) so that the proxy's writes block. Also: legal spellings of responses (trailers, chunk extensions, coding-name case, trailing whitespace, 304 with Content-Length).",
        note="Trusted: humsim TCP model (network RTT is small relative to the timeout: slowness is the upstream script's); reference request/response models; epochs 1970..2096."),
    "C10": dict(
        level="fault_enumeration", design="§6 C10",
        technique="scripted-reader simulation of Frame::from_stream: all 65 536 two-byte headers x read plans x truncation at every offset (EOF and reset), plus seeded random frames against a reference RFC 6455 codec",
        text="Every two-byte frame header is enumerated with a complete remainder and decoded under whole/bytewise/every-split/random/EINTR read plans, and truncated at every offset; reserved opcodes must be rejected, truncations must be read errors, complete frames must decode to the reference frame with the payload unmasked. Random frames over FIN x RSV x opcode x mask x the boundary length set up to 1 MiB check the encoder against the reference layout and the round trip. Later additions: the all-zero, all-ones, single-bit and four-equal-bytes mask keys. Also: 64-bit lengths with high bits set above a small low part (truncated by construction).",
        note="Trusted: reference codec; the cfg-gated hook humphrey_ws::verif only forwards to the private Frame. Claimed lengths <= 1 MiB here (huge claims are C03's)."),
    "C11": dict(
        level="exploration", design="§6 C11",
        technique="deterministic simulation: real App + websocket_handler on humsim's TCP with a reference RFC 6455 client (own SHA-1/Base64), scripted frame streams with fragmentation/interleaved control frames, delivery cuts inside header/extended length/key, blocking and non-blocking handlers, seeded schedules",
        text="Seeded client scripts of masked frames (text/binary/continuation/ping/pong/close, payloads to 70 KiB incl. the 125/126/65535/65536 boundaries, 1..5 fragments with interleaved control frames), any Sec-WebSocket-Key or none, byte-wise and header-splitting deliveries, endings by client Close / server drop / FIN / RST. Oracle: 101 with the reference accept key (no key: no upgrade), everything written after the 101 decodes as unmasked frames, server-side messages equal the reference reassembly, one Pong per Ping with the same payload, Close answered and reported, drop sends Close, nothing-yet only while no data frame has started to arrive (judged on the simulator's view of delivered bytes). Later additions: server-initiated messages after idle polls, slow-reading clients, a non-blocking-then-blocking handler mode, a Close between the fragments of a message, empty first fragments and empty continuations, key lengths around every SHA-1 padding boundary, the all-zero mask key. Also: Apps with a connection timeout of 1..5 s and clients pausing up to 3 s after the handshake. And: after a half-close without a Close frame the drop-time Close is required.",
        note="Trusted: reference codec/handshake; humsim TCP; a Close may be answered by any well-formed Close."),
    "C12": dict(
        level="exploration", design="§6 C12",
        technique="deterministic simulation: the real AsyncWebsocketApp::run (poll loop, handler pool, front App, linked and unlinked) under the humsim scheduler with reference WebSocket clients, virtual-time poll intervals and heartbeat timeouts, partitioned (silent) peers, an external AsyncSender thread, shutdown signal",
        text="Seeded scenarios of 1..8 clients (connect times, plain/unicast-requesting/broadcast-requesting messages incl. fragmented ones and bursts within one poll interval, pings, endings by Close / FIN / silence / staying), external unicasts and broadcasts, handler pools 1..8, poll 1..10 ms, heartbeat on/off, under seeded schedules. Oracle over the handler event log and each client's received frames: connect exactly once, every owed message dispatched exactly once, disconnect exactly once per closed client (Close frame or heartbeat timeout) and never for a live one, per-client order with a one-thread pool, unicast only to its addressee, broadcast never twice and exactly once to clients connected throughout, run returns within poll interval + 1 s of the shutdown signal. Later additions: no poll interval at all (fair schedules only), heartbeat timeouts of 1.5x and 2x the interval, slow-reading clients with 3..60 KB external messages, clients that close their socket outright (server writes then fail), a close landing on the heartbeat deadline, client pairs sharing an IP, per-run iteration order of the streams map. Also: a burst of 1200 messages in one write under a tight heartbeat. One silent ending in twenty happens in the middle of a message: that is the open known finding C12/R8 (the check prints KNOWN-FINDING and exits 0). And: Pongs between the fragments of a message.",
        note="Trusted: humsim scheduler/clock/TCP; iteration order of the streams map keyed per run from the entropy stream; a spinning poll loop (no interval) only under fair schedules; ordering asserted strictly only with one handler thread; messages of a client that closed its socket outright are owed at most once."),
    "C16": dict(
        level="exploration", design="§6 C16",
        technique="deterministic simulation: 1..8 threads through the real RwLock<Cache> under the humsim scheduler with a virtual wall clock (jumps onto second boundaries and age limits); linearisation by in-lock sequence numbers; reference model = the property; handler level over real files",
        text="Seeded histories of set/get/sweep/clock-advance through the real Cache behind the hooked RwLock, checked in lock order against a model that only knows the property (latest bytes+MIME for the same (host,path), never older than the limit, retrievable total <= size limit, hit right after an in-limit store); one case in eight drives the real file/directory handlers with files rewritten between requests. Later additions (handler level): two directory routes with equal relative file names and an index file each, and a file route whose uri equals a relative name; sizes at the limit and limit-1 favoured. Also: the handler-level part runs 1..6 concurrent threads and sweeps every (uri, host) under one read lock, adding up the retrievable sizes. Also: keys that differ only in letter case.",
        note="Trusted: humsim RwLock/clock; forward clock jumps only; with several threads handler-level staleness is not bounded (read-then-store is not atomic), only foreign bytes/wrong type are checked there."),
    "C17": dict(
        level="exploration", design="§6 C17",
        technique="deterministic simulation with a virtual wall clock under humphrey-auth's session expiry (clock moved to expiry-1s / expiry / expiry+1s), real Argon2/OsRng, auth-route requests over the simulated network, reference session model checked after every step",
        text="Seeded histories of up to 60 operations over 1..5 users (create/remove user, verify right/wrong/other/unknown, create session default/0/long, refresh, invalidate by token/user, get_uid_by_token, authenticated route with valid/stale/absent cookie, clock advances onto expiry boundaries), with and without pepper, every return value compared with a reference model; tokens must be 64 hex digits and never repeat. Later additions: the empty password, a prefix and another case of the right password for live, removed, unknown and empty uids; never-issued near misses of real tokens (upper case, prefix, trailing space, empty); uids, salts and tokens drawn from the run's entropy stream. Also: peppers of 7/32/64/~100 bytes; long prefix-sharing, boundary-length and non-ASCII passwords. Also: 40 sessions in a row.",
        note="Trusted: the two hooks in humphrey-auth (UNIX_EPOCH.elapsed -> virtual wall clock; OsRng and Uuid::new_v4 -> the run's entropy stream); single driver thread (the property quantifies over histories)."),
    "C04": dict(
        level="exploration", design="§6 C04",
        technique="deterministic simulation: generated applications (host sub-apps, HTTP and WebSocket routes) served by the real App on the simulated network to 1..4 concurrent keep-alive connections; reference first-match router over an independent DP glob matcher",
        text="Seeded generation of applications and request sequences (Host absent/exact/wildcard/with port/non-matching; paths matching several, one or no routes; queries; upgrade requests) with every handler answering its identity, observed at every position of a connection's history and under concurrency and seeded schedules; the answer must be the reference router's. Dominated by seeded configuration/input generation (stated in the evidence); sampling, not enumeration. Both runtimes (tokio as twin phase C04T). Also: mixed-case host names spelled exactly as registered; paths with a literal *. And paths of 2049..6000 characters.",
        note="Trusted: the reference router and DP glob matcher; origin-form targets; both runtimes (the tokio one as twin phase C04T)."),
    "C07": dict(
        level="exploration", design="§6 C07",
        technique="deterministic simulation: (a) Response serialisation checked by a strict reference grammar and parsed back over a scripted reader (every split point); (b)(c) the real Client inside the simulator against scripted conforming servers on port 80 of simulated hosts, all chunk compositions for bodies <= 6 bytes, stream segmentations, redirect chains across hosts",
        text="All 63 compositions x 2 hex cases of chunked bodies up to 6 bytes are enumerated against the real Client; seeded cases cover responses over all 39 status codes / 0..40 headers / Set-Cookie attribute subsets / bodies to 64 KiB (serialise, strict grammar, parse back under every split point of messages <= 600 bytes), the Client against Content-Length / chunked / close-delimited / body-less responses from closing and keep-alive servers under segmentation, and redirect chains 0..5 over {301,302,307} with relative and absolute Location across 4 simulated hosts. Later additions: framing header names in four spellings and four colon separators in the scripted servers; a client that needs 25 virtual s or more against a keep-alive server holding the connection for 30 s is flagged. Also: half of the client cases attach 1..3 cookies and the first host is session-keyed (a followed same-host hop lacking a cookie pair of the first request gets 403). Also: the legal response spellings shared with C09.",
        note="Trusted: reference grammar/servers; RFC 2616 reason phrases accepted for 413/414/416; servers key on the path (query ignored)."),
    "C08": dict(
        level="exploration", design="§6 C08",
        technique="deterministic simulation: real ThreadPool under the humsim baton scheduler, seeded random/sticky/PCT/round-robin schedules, real panics, stuck detection",
        text="Seeded schedule search over lifecycle scripts (start, tasks incl. panicking/sleeping/barrier ones, stop x0..2, drop) of the real ThreadPool with its recovery thread; oracle: exactly-once counters, concurrency bound, barrier-of-N completion before and after panics, caller never stuck, every worker thread exits once the system is quiescent. Sampling, not enumeration: a clean batch is evidence, not proof. Also: panic payloads that are not strings (panic_any, resume_unwind with a typed error).",
        note="Trusted: the humsim scheduler (every Mutex/mpsc/spawn/join is a decision point; only one thread runs at a time, so races inside a single un-intercepted stretch of code are not explored); std's unwinding/poisoning are the real ones."),
}

CLAIMED["C19"] = dict(
    level="exploration", design="§6 C19",
    technique="deterministic simulation: the whole humphrey_server::server::main from a generated Config on humsim's network, clients connecting from arbitrary IPv4/IPv6 source addresses (only a simulated network allows that), scripted upstream for proxy routes, cache warming histories, seeded schedules",
    text="Seeded configurations (block/forbidden x list contents x file/directory/proxy/redirect routes x cache on/off x threads) and clients from chosen addresses sending keep-alive request sequences with X-Forwarded-For absent or naming listed/unlisted addresses. Oracle: listed peer in block mode never receives a byte; listed peer or listed forwarded origin in forbidden mode gets 403 and never the route's content whatever headers it sends; all-unlisted clients are served the exact file / directory file / upstream response / redirect. Later additions: sub-directory without/with trailing slash and a missing file on the directory route; IPv4 clients on a dual-stack [::] listener (peers seen as ::ffff:a.b.c.d). Also: forwarding chains of 31..200 entries. And: blacklist entries in IPv4-mapped spelling.",
    note="Trusted: humsim TCP (peer addresses are whatever the harness chooses); real std::fs on a scratch directory; a listed intermediate forwarding entry may be refused or served.")

CLAIMED["C20"] = dict(
    level="exploration", design="§6 C20",
    technique="deterministic simulation: the real App::run with a shutdown receiver under the humsim scheduler, 0..16 connections scripted into chosen states at the virtual instant of the signal, pools incl. fully occupied ones, rendezvous and unbounded channels, unspecified bind addresses with the strict-connect knob, rebind after return",
    text="Seeded traffic states at the instant of the signal (just connected, idle keep-alive, half-sent request, handler running 5 ms / 2 s, 150 KB response to a 512-byte-window reader, WebSocket open), signal before run / before the first connection / with traffic / with the pool occupied. Oracle: run returns Ok within 1 virtual second of the signal, the address can be bound again, a response that started arrives completely, requests fully sent >= 100 virtual ms before the signal are answered (detached workers keep running in the simulation). Later additions: the sender of the shutdown channel is kept alive until the scenario ends (a signal sent before run starts waiting must still end it). Also: applications whose connection condition refuses connections when the signal comes (drain mode / connection limit). And: 80..100 silent connections (one case in forty). And: listening on port 0; a second application in the same process.",
    note="Trusted: humsim scheduler/TCP/clock; threaded runtime (mpsc receiver) and, as twin phase C20T, the tokio runtime (CancellationToken).")

NA = {
    "C05": "pure function wildcard_match(&str,&str)->bool: no schedule, clock, I/O or fault in the statement; deciding it is exhaustive input enumeration, not simulation (DESIGN §7)",
    "C06": "function of (directory tree, request path); no schedule, clock or fault in the statement and no file-system seam its clauses would use (DESIGN §7)",
    "C13": "Value::parse / serialize are pure functions of their input; 'iff RFC 8259' and round-trip are input-space properties (DESIGN §7)",
    "C14": "compile-time code generation (derive, json!) checked by compiling generated programs; nothing runs concurrently, in time or over I/O (DESIGN §7)",
    "C15": "parse_conf + Config::from_tree map file text to a struct; layout independence and rejection are input-space properties (its never-crash half is exercised under C03) (DESIGN §7)",
    "C18": "SHA-1, Base64, percent-coding and date formatting are pure functions compared with references over enumerated inputs (DESIGN §7)",
}
NOT_YET = {}

ALL = ["C%02d" % i for i in range(1, 21)]

def main():
    commits = subprocess.run(["git", "-C", "/repo", "log", "--format=%H %s"], capture_output=True, text=True).stdout.splitlines()
    hooks = [c.split()[0] for c in commits if " verif hook:" in c]
    checks = []
    for pid in ALL:
        if pid in CLAIMED:
            c = CLAIMED[pid]
            checks.append({
                "property_id": pid,
                "quick_cmd": f"./hv_run check {pid} --tier quick",
                "thorough_cmd": f"./hv_run check {pid} --tier thorough",
                "evidence_file": f"/verif/evidence/{pid}.json",
                "replay_cmd_template": "./hv_run replay {path}",
                "engine": c.get("engine", "humsim"),
                "level_claimed": {"category": c["level"], "text": c["text"], "design_ref": c["design"]},
                "level_note": c["note"],
                "technique": c["technique"],
            })
    na = []
    for pid in ALL:
        if pid in CLAIMED:
            continue
        if pid in NA:
            na.append({"property_id": pid, "reason": "not applicable to deterministic simulation: " + NA[pid]})
        else:
            na.append({"property_id": pid, "reason": NOT_YET.get(pid, "check designed in DESIGN.md §6 but not built yet in this tree; not claimed until it runs")})
    m = {
        "version": 1,
        "setup_cmd": "cd /verif && CARGO_NET_OFFLINE=true CARGO_TARGET_DIR=/verif/target cargo build --release --offline && cd /verif/tk && CARGO_NET_OFFLINE=true CARGO_TARGET_DIR=/verif/tk/target cargo build --release --offline",
        "hooks": {
            "guard": "--cfg humphrey_verif (rustc cfg, set in /verif/.cargo/config.toml; off in /repo)",
            "enable": "the /verif workspace builds /repo's crates through shadow manifests (/verif/shadow/*/Cargo.toml, [lib] path=/repo/<crate>/src/lib.rs) with RUSTFLAGS --cfg humphrey_verif and the humsim dependency; /repo's Cargo.toml and Cargo.lock are untouched",
            "baseline_off_cmd": "cd /repo && cargo test --workspace --no-fail-fast --offline",
            "source_commits": hooks,
            "add_only": True,
        },
        "engines": [
            {"name": "humsim", "path": "/verif/humsim", "serves_properties": sorted(CLAIMED.keys()),
             "kind_free_text": "own deterministic simulator: real OS threads under a one-baton seeded scheduler (random/sticky/PCT/rr), virtual monotonic and wall clocks, in-memory TCP with segmentation/latency/windows/FIN/RST/timeouts/short reads/EINTR, stuck detection, trace hashing; harness /verif/hv (worker processes pinned one per core, JSON scenarios, generic structural minimiser, replay files)"},
            {"name": "humsim-tk", "path": "/verif/tk", "serves_properties": ["C01", "C02", "C04", "C20"],
             "kind_free_text": "tokio twin of the simulator: tokio's current_thread runtime with a paused (virtual, auto-advancing) clock and rng_seed, over humsim::tokio_net (in-memory TcpListener/TcpStream with the same segmentation/latency/window/FIN/RST model, seeded spurious Pending), virtual wall clock for the Date header; the same hv harness sources built with feature tk as /verif/tk/target/release/hvtk; runs as the second phase (C01T, C02T, C04T, C20T) of `hv check C01|C02|C04|C20`"},
        ],
        "checks": checks,
        "not_applicable": na,
        "notes": "Exit codes of every command: 0 = held on everything explored (KNOWN-FINDING lines possible), 1 = VIOLATION line(s) with replay files under /verif/replays, 2 = harness error (build failure, worker crash, non-reproducing replay) which is never reported as a violation. VERIF_SEED and VERIF_TIER are honoured. Known findings: /verif/known_findings.json.",
    }
    json.dump(m, open("/verif/MANIFEST.json", "w"), indent=1)
    print("MANIFEST.json written:", len(checks), "checks,", len(na), "not claimed")

main()
