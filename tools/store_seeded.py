#!/usr/bin/env python3
"""usage: store_seeded.py <wt> <seeded-id> <PROP> <demo cmd> <needs> <result>
Copies patch.diff, NOTES.md and the demo of a confirmed seeded change into /verif/seeded/<id>/."""
import os, shutil, json, sys
src, sid, prop, democmd, needs, result = sys.argv[1:7]
d = f'/verif/seeded/{sid}'
os.makedirs(d, exist_ok=True)
shutil.copy(f'{src}/patch.diff', f'{d}/patch.diff')
shutil.copy(f'{src}/NOTES.md', f'{d}/NOTES.md')
if os.path.isdir(f'{src}/demo'):
    if os.path.isdir(f'{d}/demo'):
        shutil.rmtree(f'{d}/demo')
    shutil.copytree(f'{src}/demo', f'{d}/demo', ignore=shutil.ignore_patterns('target', 'Cargo.lock', 'results'))
for extra in sys.argv[7:]:
    os.makedirs(f'{d}/demo', exist_ok=True)
    shutil.copy(f'{src}/{extra}', f'{d}/demo/{os.path.basename(extra)}')
meta = {'id': sid, 'breaks_property': prop,
        'written_by': 'independent sub-agent given only the property text and a scratch worktree of /repo',
        'needs_to_manifest': needs,
        'confirmed': {'compiles_and_existing_tests_unchanged': 'cargo test --workspace --offline --no-fail-fast in the scratch worktree with the change applied: only tests::client::test_url_parser fails (no network), same as baseline; run by me',
                      'demonstration': f'`{democmd}`: fails with the change, passes without it (both run by me in {src})'},
        'checks_run': f'tools/seed_eval.sh seeded/{sid}/patch.diff {prop}',
        'result': result}
json.dump(meta, open(f'{d}/meta.json', 'w'), indent=1)
print('stored', d)
