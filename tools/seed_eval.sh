#!/bin/bash
# usage: tools/seed_eval.sh <patch.diff> <PROP> [<PROP>...]
# Applies a seeded change to /repo, runs the quick checks named, prints one line per check,
# and always restores /repo afterwards.
patch="$(realpath "$1")"; shift
cd /repo || exit 2
if ! git apply --check "$patch" 2>/dev/null; then echo "PATCH-DOES-NOT-APPLY $patch"; exit 2; fi
git apply "$patch"
# (the harness binaries are rebuilt from the restored tree at the end, so a later direct use of
# target/release/hv never runs the broken copy)
trap 'git -C /repo checkout -- . ; rm -rf /verif/target/seed_eval; [ -n "$SEED_EVAL_NO_REBUILD" ] || { cd /verif && ./hv_run list >/dev/null 2>&1; }' EXIT
cd /verif
export HV_REPLAY_DIR=/verif/target/seed_eval/replays HV_EVIDENCE_DIR=/verif/target/seed_eval/evidence
for p in "$@"; do
  out=$(./hv_run check "$p" --tier quick 2>&1)
  code=$?
  sigs=$(echo "$out" | grep -E "^  C[0-9]+/R[0-9]+ " | awk '{print $1" "$2}' | sort -u | head -8 | tr '\n' ';')
  echo "CHECK $p exit=$code $(echo "$out" | grep -c '^VIOLATION') violation-classes: $sigs"
done
